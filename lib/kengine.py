"""K-engine: Kani harnesses on the real compiled crate (thorough tier only; DESIGN.md §2.6)."""


def run_harnesses(names, seed):
    return []


def try_counterexample(prop, unit, failure, seed):
    return None
