"""Process-level bounded check of the real binary (C13's first sentence): no function contract can state what a
process writes to which stream, so this family is *bounded only* and never counted in obligations/discharged.

For a fixed list of argument vectors (valid and adversarial), each run with stderr on a pipe (not a terminal):
  * the process ends by itself (no signal, not the panic status 101, no `panicked at` on stderr);
  * status 0  -> stdout is not empty;        status != 0 -> stdout is empty and stderr is not;
  * stdout of the same vector with `-v`, and with RUST_LOG=debug, is byte-identical to the plain run (logs never
    reach stdout);
  * the same with every git invocation failing (git missing from PATH; a `git` that exits 1; a `git` that prints
    garbage and exits 0), in an empty directory.
The binary is built from /repo's working tree (cargo build) on every run.
"""
import os
import shutil
import subprocess
import tempfile
import time

import rengine

BOUND = ("thorough tier: plus 600 seeded random argument vectors over the real flag set with adversarial values; quick tier: about 70 argument vectors (version / flow / render / check with every source, valid and adversarial values: non-ASCII text, "
         "numbers above u64::MAX, bad templates and format strings, malformed RON on stdin) x {plain, -v, RUST_LOG=debug}, plus every "
         "git-using vector with git missing, failing and printing garbage; stderr is a pipe")

RON_OK = ("(schema: (core: [var(Major), var(Minor), var(Patch)], extra_core: [var(Epoch), var(PreRelease), var(Post), var(Dev)], build: [var(BumpedBranch)]),"
          " vars: (major: Some(1), minor: Some(2), patch: Some(3), epoch: None, pre_release: None, post: Some(5), dev: None, distance: Some(2), dirty: Some(true),"
          " bumped_branch: Some(\"feature/é x\"), bumped_commit_hash: Some(\"abcdef123\"), bumped_timestamp: Some(1710511845), last_branch: None, last_commit_hash: None,"
          " last_timestamp: Some(1710511845), last_tag_version: Some(\"v1.2.3\"), custom: {}))")

NONE = ["--source", "none", "--tag-version"]
VECTORS = [
    # (argv, stdin text or None)
    (["version"] + NONE + ["v1.2.3"], None),
    (["version"] + NONE + ["v1.2.3", "--output-format", "pep440"], None),
    (["version"] + NONE + ["v1.2.3", "--output-format", "zerv"], None),
    (["version"] + NONE + ["1.2.3", "--distance", "3", "--dirty", "--bumped-branch", "féature/٣x", "--schema", "standard-context", "--output-format", "semver"], None),
    (["version"] + NONE + ["1.2.3", "--bump-major", "4294967295", "--bump-minor"], None),
    (["version"] + NONE + ["18446744073709551615.0.0", "--bump-major", "1"], None),
    (["version"] + NONE + ["99999999999999999999999.0.0"], None),
    (["version"] + NONE + ["not-a-version"], None),
    (["version"] + NONE + ["1.2.3", "--schema", "no-such-preset"], None),
    (["version"] + NONE + ["1.2.3", "--schema-ron", "(core:[var(Patch),var(Major)],extra_core:[],build:[])"], None),
    (["version"] + NONE + ["1.2.3", "--schema-ron", "(core:[var(Major)"], None),
    (["version"] + NONE + ["1.2.3", "--output-template", "{{ major }}.{{ minor }}+{{ hash(value=bumped_branch, length=99999999999) }}"], None),
    (["version"] + NONE + ["1.2.3", "--output-template", "{{ major"], None),
    (["version"] + NONE + ["1.2.3", "--output-template", "{{ prefix(value='aé', length=1) }}"], None),
    (["version"] + NONE + ["1.2.3", "--output-template", "{{ format_timestamp(value=1, format='%Q') }}"], None),
    (["version"] + NONE + ["1.2.3", "--core", "7=1"], None),
    (["version"] + NONE + ["1.2.3", "--core", "0=x"], None),
    (["version"] + NONE + ["1.2.3", "--bump-core", "~0"], None),
    (["version"] + NONE + ["1.2.3", "--bumped-commit-hash", "abcdefgéhij", "--schema", "standard-context", "--distance", "1"], None),
    (["version"] + NONE + ["1.2.3", "--custom", "{not json"], None),
    (["version"] + NONE + ["1.2.3", "--custom", "{\"a\": {\"b\": [1, 2]}}", "--output-template", "{{ custom.a.b }}"], None),
    (["version"] + NONE + ["1.2.3", "--output-prefix", "ü-"], None),
    (["version", "--source", "stdin"], RON_OK),
    (["version", "--source", "stdin", "--output-format", "pep440", "--bump-post"], RON_OK),
    (["version", "--source", "stdin", "--output-format", "zerv"], RON_OK),
    (["version", "--source", "stdin"], ""),
    (["version", "--source", "stdin"], "(schema: (core: [var(Epoch)], extra_core: [], build: []), vars: ())"),
    (["version", "--source", "stdin"], RON_OK.replace("Some(1)", "Some(-1)")),
    (["version", "--source", "stdin"], "\x00\xff garbage"),
    (["version", "--source", "stdin"], "1.2.3"),
    # stdin that is not UTF-8 (reading it fails with a bare io::Error, not a ZervError): a failure like any other — diagnostic, non-zero status (seed V13_2)
    (["version", "--source", "stdin"], b"(schema: \xff\xfe)\n"),
    (["flow", "--source", "stdin"], b"\xc3\x28"),
    (["version", "--source", "bogus"], None),
    (["flow"] + NONE + ["1.2.3", "--distance", "2", "--bumped-branch", "feature/x"], None),
    (["flow"] + NONE + ["1.2.3", "--distance", "2", "--bumped-branch", "release/7/x", "--output-format", "pep440"], None),
    (["flow"] + NONE + ["1.2.3", "--dirty", "--bumped-branch", "日本語", "--post-mode", "tag"], None),
    (["flow"] + NONE + ["1.2.3", "--branch-rules", "[(pattern: \"x\", pre_release_label: rc, post_mode: tag)]"], None),
    (["flow"] + NONE + ["1.2.3", "--branch-rules", "[(pattern: \"x\""], None),
    (["flow"] + NONE + ["1.2.3", "--pre-release-label", "gamma"], None),
    (["flow", "--source", "stdin"], RON_OK),
    (["render", "1.0.0-post.x.post"], None),
    (["render", "1.0.0-epoch.x.epoch.1"], None),
    (["render", "1.0.0-post.dev.post", "--output-format", "pep440"], None),
    (["render", "1.0.0-alpha.alpha.1.rc.rc"], None),
    (["version"] + NONE + ["1.0.0-dev.x.dev.2"], None),
    (["version"] + NONE + ["1.2.3", "--output-template", "{{ hash_int(value='x', length=100000000000000, allow_leading_zero=true) }}"], None),
    (["version"] + NONE + ["1.2.3", "--output-template", "{{ hash_int(value='x', length=70000, allow_leading_zero=true) | length }}"], None),
    (["version"] + NONE + ["1.2.3", "--output-template", "{{ hash(value='x', length=100000000000000) }}{{ prefix(value='x', length=18446744073709551615) }}"], None),
    (["version"] + NONE + ["1.2.3", "--output-template", "{% macro f() %}{{ self::f() }}{% endmacro f %}{{ self::f() }}"], None),
    (["check", b"\xff\xfe"], None),
    (["version", "--source", "none", "--tag-version", "1.2.3", "--bumped-branch", b"feat/\xe9"], None),
    (["render", "1.2.3"], None),
    (["render", "1.2.3-alpha.1+b.7", "--output-format", "pep440"], None),
    (["render", "1!2.0rc1.post2.dev3+x.1", "--input-format", "pep440", "--output-format", "semver"], None),
    (["render", "1.2.3", "--template", "{{ major }}-{{ semver }}"], None),
    (["render", "1.2.3", "--template", "{{ major"], None),
    (["render", "١.٢.٣"], None),
    (["render", ""], None),
    (["render", "1.2.3", "--output-format", "nope"], None),
    (["check", "1.2.3"], None),
    (["check", "1.0.0-18446744073709551616", "--format", "semver"], None),
    (["check", "nope"], None),
    (["check", "1.0+é", "--format", "pep440"], None),
    (["check", "1.2.3", "--format", "bogus"], None),
    (["version", "--no-such-flag"], None),
    ([], None),
    (["--version"], None),
]
GIT_VECTORS = [["version"], ["version", "--source", "git"], ["flow"], ["version", "--output-format", "pep440", "--schema", "calver"]]


_TEXTS = ["main", "feature/x", "féature/٣x", "release/7/x", "", " ", "a b", "日本語日本語", "abcdef€x", "-", "--x", "1", "0007", "x" * 300, "\u212a", "a/b/c/1/2", "'q'", "\"dq\"", "{{ x }}", "%Y"]
_NUMS = ["0", "1", "7", "4294967295", "4294967296", "18446744073709551615", "18446744073709551616", "-1", "x", "", "1.5", "{{ major }}", "{{ major + 1 }}", "{{", "{{ nope }}", "{{ 1 / 0 }}"]
_VERSIONS = ["1.2.3", "v1.2.3", "0.0.0", "1.2.3-alpha.1", "1.2.3-rc.1.post.2.dev.3+b.7", "1.0.0-post.x.post", "1.0.0-epoch.1.epoch", "1.0.0-dev.dev.dev", "1.0.0-alpha.beta.rc.1.2.3",
             "1!2.0rc1.post2.dev3+x.1", "1.0+abc", "2024.3.15", "1", "1.2", "1.2.3.4.5", "nope", "", "١.٢.٣", "18446744073709551615.0.0", "1.0.0-18446744073709551616", "1.0.post4294967296",
             "0!0", "1.0a", "1.0.dev", "1.0-1", "1.2.3-" + "a." * 50 + "z", "1.2.3+" + "9" * 40]
_SCHEMAS = ["standard", "standard-no-context", "standard-context", "standard-base", "standard-base-prerelease", "standard-base-prerelease-post", "standard-base-prerelease-post-dev",
            "standard-base-context", "standard-base-prerelease-post-dev-context", "calver", "calver-no-context", "calver-context", "calver-base", "calver-base-prerelease-post-dev-context", "bogus", ""]
_RONS = ["(core:[var(Major),var(Minor),var(Patch)],extra_core:[],build:[])", "(core:[],extra_core:[],build:[])", "(core:[var(Patch),var(Major)],extra_core:[],build:[])",
         "(core:[str(\"x\"),uint(7),var(ts(\"YYYY\")),var(ts(\"QQ\")),var(custom(\"a.b\"))],extra_core:[var(Epoch),var(PreRelease),var(Post),var(Dev)],build:[var(BumpedBranch),var(Distance),var(Dirty)])",
         "(core:[var(Epoch)],extra_core:[var(Major)],build:[var(Post)])", "(core:[var(Major)", "nope", "(core:[var(Major),var(Major)],extra_core:[var(Post),var(Post)],build:[])",
         "(core:[var(Major)],extra_core:[],build:[],precedence_order:[])", "(core:[var(Major)],extra_core:[],build:[],precedence_order:[Dev,Post,Major])"]
_TEMPLATES = ["{{ major }}.{{ minor }}", "{{ semver }}|{{ pep440 }}", "{{ semver_obj.docker }}", "{{ hash(value=bumped_branch, length=0) }}", "{{ hash_int(value=bumped_branch, length=25, allow_leading_zero=true) }}",
              "{{ prefix(value='aé日', length=2) }}", "{{ prefix_if(value=bumped_branch, prefix='+') }}", "{{ sanitize(value=bumped_branch, preset='dotted') }}", "{{ sanitize(value='x', preset='nope') }}",
              "{{ sanitize(value='a-b', separator='', max_length=0) }}", "{{ sanitize(value='a b c', separator='·', max_length=2) }}", "{{ sanitize(value='aé b', separator='日本', max_length=3, lowercase=true) }}",
              "{{ sanitize(value='x y', separator='😀', max_length=4) }}", "{{ format_timestamp(value=bumped_timestamp, format='%Y-%m-%d') }}", "{{ format_timestamp(value=1, format='%Q%') }}",
              "{{ format_timestamp(value=99999999999999999) }}", "{{ custom.a.b }}", "{{ nope }}", "{{ major", "{% if dirty %}d{% endif %}", "", "{{ pre_release.label_code }}{{ pre_release.number }}",
              "{{ hash_int(value='x', length=-1) }}", "{{ prefix(value=1, length='x') }}"]
_INDEX_OPS = ["0=1", "1=x", "-1=5", "~1=2", "~0=1", "9=1", "=1", "0=", "x=1", "0=4294967296", "0={{ major }}", "0", "-1", "~1", "9", "x", "1=2=3"]
_JSON = ["{}", "{\"a\": {\"b\": [1, 2]}}", "[1]", "null", "\"x\"", "{not json", "{\"a\": \"" + "z" * 200 + "\"}", "{\"a.b\": 1, \"a\": {\"b\": 2}}"]


def _random_vector(rnd):
    pick = rnd.choice
    sub = pick(["version", "version", "version", "flow", "flow", "render", "check"])
    argv = [sub]
    if sub in ("version", "flow"):
        argv += ["--source", pick(["none", "none", "none", "stdin", "git", "bogus"])]
        opts = [lambda: ["--tag-version", pick(_VERSIONS)], lambda: ["--input-format", pick(["semver", "pep440", "auto", "bogus"])],
                lambda: ["--output-format", pick(["semver", "pep440", "zerv", "bogus"])], lambda: ["--schema", pick(_SCHEMAS)], lambda: ["--schema-ron", pick(_RONS)],
                lambda: ["--distance", pick(_NUMS)], lambda: [pick(["--dirty", "--no-dirty", "--clean"])], lambda: ["--bumped-branch", pick(_TEXTS)],
                lambda: ["--bumped-commit-hash", pick(_TEXTS)], lambda: ["--bumped-timestamp", pick(_NUMS)], lambda: ["--output-template", pick(_TEMPLATES)],
                lambda: ["--output-prefix", pick(_TEXTS)], lambda: ["--post", pick(_NUMS)], lambda: ["--pre-release-label", pick(["alpha", "beta", "rc", "a", "RC", "gamma", ""])],
                lambda: ["--pre-release-num", pick(_NUMS)]]
        if sub == "version":
            opts += [lambda: [pick(["--major", "--minor", "--patch", "--epoch", "--dev"]), pick(_NUMS)],
                     lambda: [pick(["--bump-major", "--bump-minor", "--bump-patch", "--bump-epoch", "--bump-post", "--bump-dev", "--bump-pre-release-num"])] + ([pick(_NUMS)] if rnd.random() < 0.6 else []),
                     lambda: ["--bump-pre-release-label", pick(["alpha", "beta", "rc", "x", ""])], lambda: [pick(["--core", "--extra-core", "--build"]), pick(_INDEX_OPS)],
                     lambda: [pick(["--bump-core", "--bump-extra-core", "--bump-build"]), pick(_INDEX_OPS)], lambda: ["--custom", pick(_JSON)],
                     lambda: [pick(["--bump-context", "--no-bump-context"])]]
        else:
            opts += [lambda: ["--post-mode", pick(["tag", "commit", "x"])], lambda: ["--hash-branch-len", pick(["1", "5", "10", "0", "11", "x"])],
                     lambda: ["--branch-rules", pick(["[(pattern: \"x\", pre_release_label: rc, pre_release_num: 1, post_mode: tag)]", "[(pattern: \"*\", pre_release_label: alpha, post_mode: commit)]",
                                                      "[(pattern: \"a/*\", pre_release_label: beta, pre_release_num: 3, post_mode: tag)]", "[]", "[(pattern: \"x\"", "nope"])]]
        for _ in range(rnd.randint(0, 6)):
            argv += pick(opts)()
    elif sub == "render":
        argv += [pick(_VERSIONS)]
        for _ in range(rnd.randint(0, 3)):
            argv += pick([lambda: ["--input-format", pick(["semver", "pep440", "auto", "bogus"])], lambda: ["--output-format", pick(["semver", "pep440", "zerv", "bogus"])],
                          lambda: ["--template", pick(_TEMPLATES)], lambda: ["--output-prefix", pick(_TEXTS)]])()
    else:
        argv += [pick(_VERSIONS)] + (["--format", pick(["semver", "pep440", "auto", "bogus"])] if rnd.random() < 0.7 else [])
    stdin_text = None
    if "stdin" in argv:
        stdin_text = pick([RON_OK, "", "garbage", RON_OK.replace("Some(1)", "Some(18446744073709551615)"), RON_OK.replace("var(Major)", "var(Epoch)"), RON_OK[:200]])
    return argv, stdin_text


def _limits():
    import resource
    resource.setrlimit(resource.RLIMIT_AS, (3 << 30, 3 << 30))     # a runaway template must not take the machine down
    resource.setrlimit(resource.RLIMIT_CPU, (20, 25))


def _run(zerv, argv, stdin_text, cwd, env, timeout=60):
    try:
        p = subprocess.run([zerv] + argv, input=(stdin_text if stdin_text is not None else None),
                           stdin=(subprocess.DEVNULL if stdin_text is None else None),
                           stdout=subprocess.PIPE, stderr=subprocess.PIPE, cwd=cwd, env=env, timeout=timeout, preexec_fn=_limits)
        return p.returncode, p.stdout, p.stderr
    except subprocess.TimeoutExpired:
        return None, b"", b"timeout"


def run(tier="quick", seed=0):
    """-> dict like cexengine.run: family, status, lines, classes, cases, bound"""
    t0 = time.time()
    res = {"family": "cli_discipline", "bound": BOUND, "cases": 0}
    ok, msg = rengine.build_zerv()
    if not ok:
        res.update(status="error", lines=["the zerv binary does not build from the working tree: " + msg[-400:]])
        return res
    zerv = rengine.ZERV
    work = tempfile.mkdtemp(prefix="verif_cli_")
    classes = {}

    def bad(cls, text):
        classes.setdefault(cls, []).append(f"CEX cli_discipline class={cls} {text}")

    try:
        base_env = {k: v for k, v in os.environ.items() if not k.startswith("RUST_LOG") and not k.startswith("ZERV_")}
        base_env.update(TZ="Pacific/Kiritimati", HOME=work, NO_COLOR="1")

        def discipline(argv, stdin_text, cwd, env, label):
            rc, out, err = _run(zerv, argv, stdin_text.encode("utf-8", "surrogateescape") if isinstance(stdin_text, str) else stdin_text, cwd, env)
            res["cases"] += 1
            show = " ".join(repr(a) for a in argv) + (" <stdin>" if stdin_text is not None else "") + label
            if rc is None:
                bad("no-termination", f"`zerv {show}` did not terminate within 60 s")
                return None
            if (rc < 0 or rc == 134) and any(isinstance(a, str) and "macro" in a for a in argv):
                bad("tera-macro-recursion", f"`zerv {show}` aborts (status {rc}): {err.decode('utf-8', 'replace')[-160:]!r}")
                return None
            if rc < 0 or rc in (101, 134) or b"panicked at" in err:
                bad("panic", f"`zerv {show}` panicked or was killed (status {rc}): {err.decode('utf-8', 'replace')[:300]!r}")
                return None
            if rc == 0 and not out.strip() and argv and not any(a in ("--output-template", "--template") for a in argv if isinstance(a, str)):
                # (no sub-command: nothing was requested; a template may legitimately render to nothing)
                bad("empty-success", f"`zerv {show}` exited 0 with nothing on stdout")
            if rc != 0 and out:
                bad("stdout-on-failure", f"`zerv {show}` exited {rc} but wrote to stdout: {out.decode('utf-8', 'replace')[:200]!r}")
            if rc != 0 and not err.strip():
                bad("silent-failure", f"`zerv {show}` exited {rc} without a diagnostic on stderr")
            return rc, out

        for argv, stdin_text in VECTORS:
            plain = discipline(argv, stdin_text, work, base_env, "")
            if plain is None:
                continue
            for extra_argv, extra_env, label in ([["-v"], {}, " -v"], [[], {"RUST_LOG": "debug"}, " (RUST_LOG=debug)"]):
                if not argv or argv[0].startswith("-") or any(isinstance(a, bytes) for a in argv):
                    continue
                again = discipline(argv + extra_argv, stdin_text, work, dict(base_env, **extra_env), label)
                if again is None:
                    continue
                # the wall-clock dev timestamp of dirty states may differ between two runs: compare after masking long digit runs
                import re
                mask = lambda b: re.sub(rb"\d{9,}", b"<ts>", b)
                if mask(again[1]) != mask(plain[1]) or again[0] != plain[0]:
                    bad("logs-on-stdout", f"`zerv {' '.join(repr(a) for a in argv)}`{label}: stdout/status differ from the plain run: "
                                          f"{plain[0]} {plain[1].decode('utf-8', 'replace')[:160]!r} vs {again[0]} {again[1].decode('utf-8', 'replace')[:300]!r}")
        if tier == "thorough" or os.environ.get("VERIF_CLI_RANDOM"):
            import random
            rnd = random.Random(1000003 * int(seed) + 17)
            n = int(os.environ.get("VERIF_CLI_RANDOM", "600"))
            for _ in range(n):
                argv, stdin_text = _random_vector(rnd)
                plain = discipline(argv, stdin_text, work, base_env, " [random]")
                if plain is not None and rnd.random() < 0.3 and not any("timestamp" in a or "dirty" == a.strip("-") for a in argv):
                    again = discipline(argv + ["-v"], stdin_text, work, base_env, " [random] -v")
                    if again is not None:
                        import re
                        mask = lambda b: re.sub(rb"\d{9,}", b"<ts>", b)
                        if mask(again[1]) != mask(plain[1]) or again[0] != plain[0]:
                            bad("logs-on-stdout", f"`zerv {' '.join(repr(a) for a in argv)}` -v: stdout/status differ from the plain run")
        # ---- adversarial templates that end inside the template engine (tera, a dependency): each class is one recorded finding
        T = ["version", "--source", "none", "--tag-version", "1.2.3"]
        tera_vectors = [
            ("tera-builtin-panic", T + ["--bumped-timestamp", "8210266876800", "--output-template", "{{ bumped_timestamp | date(format=\"%Y%m%d\") }}"]),
            ("tera-builtin-panic", ["render", "1.2.3", "--output-template", "{{ 99999999999999 | date }}"]),
            ("tera-builtin-panic", T + ["--major", "{{ get_random(start=5, end=5) }}"]),
            ("tera-builtin-panic", ["render", "1.2.3", "--output-template", "{{ \"7\" | int(base=1) }}"]),
            ("tera-stack-overflow", T + ["--output-template", "{% import \"template\" as m %}"]),
            ("tera-stack-overflow", T + ["--output-template", "{{ " + "(" * 5000 + "1" + ")" * 5000 + " }}"]),
            ("tera-no-termination", T + ["--output-template", "{{ range(end=3, step_by=0) }}"]),
        ]
        for cls, argv in tera_vectors:
            res["cases"] += 1
            rc, out, err = _run(zerv, argv, None, work, base_env, timeout=15)
            show = " ".join(repr(a if len(a) < 90 else a[:40] + "…" + a[-20:]) for a in argv)
            if rc is None or rc < 0 or rc in (101, 134) or b"panicked at" in err:
                bad(cls, f"`zerv {show}`: " + ("no result within 15 s / killed by the resource limit" if rc is None or rc in (-9, -24) else f"status {rc}: {err.decode('utf-8', 'replace').strip()[:200]!r}"))
            elif rc == 0 and cls != "tera-builtin-panic":
                pass
        # every git invocation failing
        empty = os.path.join(work, "norepo")
        os.makedirs(empty)
        bins = {}
        for name, script in (("missing", None), ("fails", "#!/bin/sh\necho 'fatal: simulated failure' >&2\nexit 1\n"),
                             ("garbage", "#!/bin/sh\nprintf '\\377\\376 not what you expected\\n\\n'\nexit 0\n")):
            d = os.path.join(work, "bin_" + name)
            os.makedirs(d)
            if script:
                with open(os.path.join(d, "git"), "w") as fh:
                    fh.write(script)
                os.chmod(os.path.join(d, "git"), 0o755)
            bins[name] = d
        for name, d in bins.items():
            env = dict(base_env, PATH=d)
            for argv in GIT_VECTORS:
                for extra in ([], ["-v"]):
                    r = discipline(argv + extra, None, empty, env, f" [git {name}]")
                    if r is not None and r[0] == 0 and name in ("missing", "fails"):
                        bad("success-without-git", f"`zerv {' '.join(argv + extra)}` exited 0 although git is {name}: {r[1][:120]!r}")
    finally:
        shutil.rmtree(work, ignore_errors=True)
    res["wall_s"] = round(time.time() - t0, 2)
    if classes:
        lines = [l for v in classes.values() for l in v]
        res.update(status="cex", lines=lines[:5], classes={k: v[:5] for k, v in classes.items()})
    else:
        res.update(status="no-cex", lines=[])
    return res


PIPE_BOUND = ("about 50 argument vectors of `zerv version` / `zerv flow` (sources none and stdin; overrides incl. --epoch 0, bumps, presets, custom schemas with "
              "awkward literals, custom JSON): the object emitted with --output-format zerv is piped into `zerv version --source stdin` for semver and "
              "pep440 and compared with the direct rendering; the emitted object is re-emitted through the pipe and compared byte for byte "
              "(`zerv render --output-format zerv` included; --output-prefix, custom JSON nested up to 100 levels); an emitted object with dirty: Some(true) "
              "and a fixed bumped_timestamp must keep that value; 14 documents whose schema breaks one placement rule each (or that are not RON) must be refused "
              "with an error and an empty stdout")

PIPE_VECTORS = [
    ["version"] + NONE + ["v1.2.3"],
    ["version"] + NONE + ["1.2.3", "--epoch", "0"],
    ["version"] + NONE + ["1.2.3", "--epoch", "2", "--post", "0", "--dev", "0"],
    ["version"] + NONE + ["1.2.3-rc.1", "--bump-pre-release-num"],
    ["version"] + NONE + ["1.2.3", "--pre-release-label", "beta", "--pre-release-num", "0"],
    ["version"] + NONE + ["1.2.3", "--bump-major", "--bump-minor", "2", "--bump-patch", "0"],
    ["version"] + NONE + ["1.2.3", "--distance", "3", "--dirty", "--bumped-branch", "féature/٣x \"q\"", "--bumped-commit-hash", "abcdef123456", "--schema", "standard-context"],
    ["version"] + NONE + ["1.2.3", "--distance", "0", "--no-dirty", "--schema", "calver", "--bumped-timestamp", "1710511845"],
    ["version"] + NONE + ["1.2.3", "--schema", "calver-base-prerelease-post-dev-context", "--bumped-timestamp", "0", "--post", "4"],
    ["version"] + NONE + ["1!2.0rc1.post2.dev3+x.1", "--input-format", "pep440"],
    ["version"] + NONE + ["1.2.3", "--custom", "{\"a\": {\"b\": [1, \"x\\ny\"]}, \"k\": \"v\"}", "--schema-ron", "(core:[var(Major),var(Minor),var(Patch)],extra_core:[var(custom(\"k\"))],build:[str(\"B.01\"),uint(7)])"],
    ["version"] + NONE + ["1.2.3", "--schema-ron", "(core:[var(Major),var(Minor),var(Patch)],extra_core:[],build:[],precedence_order:[])", "--bump-major"],
    ["version"] + NONE + ["1.2.3", "--core", "0=9", "--bump-core", "1"],
    ["version"] + NONE + ["1.2.3", "--clean", "--bump-patch"],
    ["version"] + NONE + ["1.2.3", "--no-bump-context", "--distance", "4", "--dirty"],
    ["flow"] + NONE + ["1.2.3", "--distance", "2", "--bumped-branch", "feature/x"],
    ["flow"] + NONE + ["1.2.3-beta.4", "--distance", "2", "--bumped-branch", "release/7", "--no-dirty"],
    ["flow"] + NONE + ["1.2.3", "--bumped-branch", "develop", "--distance", "1", "--schema", "standard-base-prerelease-post"],
    ["version"] + NONE + ["1.2.3", "--output-prefix", "v"],
    ["flow"] + NONE + ["1.2.3", "--bumped-branch", "main", "--output-prefix", "release-"],
    ["version"] + NONE + ["1.2.3", "--custom", "[" * 40 + "]" * 40],
    ["version"] + NONE + ["1.2.3", "--custom", "{\"k\":" * 20 + "\"leaf\"" + "}" * 20],
    ["version"] + NONE + ["1.2.3", "--custom", "{\"k\":" * 55 + "[[1]]" + "}" * 55],
    ["version"] + NONE + ["1.2.3", "--custom", "[" * 100 + "]" * 100],
    ["version"] + NONE + ["1.2.3", "--custom", "{\"a\":" * 70 + "1" + "}" * 70],
    ["render", "1.2.3-epoch.0"],
    ["render", "1.2.3-2.epoch.0.alpha"],
    ["render", "1!2.0rc1.post2.dev3+x.1", "--input-format", "pep440"],
    ["render", "1.2.3-rc.1.post.4+build.5"],
]

_CORE3 = "core:[var(Major),var(Minor),var(Patch)]"
_VARS = "vars:(major:Some(1),minor:Some(2),patch:Some(3),bumped_timestamp:Some(1700000000))"
# (class, document): every one breaks exactly one rule named in the statement, or is not RON
PIPE_REFUSED = [
    ("major-outside-core", f"(schema:(core:[var(Minor),var(Patch)],extra_core:[var(Major)],build:[]),{_VARS})"),
    ("patch-in-build", f"(schema:(core:[var(Major),var(Minor)],extra_core:[],build:[var(Patch)]),{_VARS})"),
    ("core-out-of-order", f"(schema:(core:[var(Minor),var(Major),var(Patch)],extra_core:[],build:[]),{_VARS})"),
    ("epoch-in-core", f"(schema:(core:[var(Major),var(Minor),var(Patch),var(Epoch)],extra_core:[],build:[]),{_VARS})"),
    ("pre-release-in-build", f"(schema:({_CORE3},extra_core:[],build:[var(PreRelease)]),{_VARS})"),
    ("post-in-core", f"(schema:(core:[var(Major),var(Post)],extra_core:[],build:[]),{_VARS})"),
    ("dev-in-build", f"(schema:({_CORE3},extra_core:[],build:[var(Dev)]),{_VARS})"),
    ("duplicate-major", f"(schema:(core:[var(Major),var(Major)],extra_core:[],build:[]),{_VARS})"),
    ("duplicate-post", f"(schema:({_CORE3},extra_core:[var(Post),var(Post)],build:[]),{_VARS})"),
    ("no-component", f"(schema:(core:[],extra_core:[],build:[]),{_VARS})"),
    ("unknown-pattern-word", f"(schema:({_CORE3},extra_core:[],build:[var(ts(\"bogus\"))]),{_VARS})"),
    ("unknown-pattern-empty", f"(schema:({_CORE3},extra_core:[],build:[var(ts(\"\"))]),{_VARS})"),
    ("unknown-pattern-percent", f"(schema:({_CORE3},extra_core:[],build:[var(ts(\"%Q\"))]),{_VARS})"),
    ("not-ron", f"(schema:({_CORE3},extra_core:[],build:[]),{_VARS}"),
    ("not-ron", "{\"schema\": 1}"),
    ("not-ron", ""),
]


def run_pipe(tier="quick", seed=0):
    """C12: "any final rendering … obtained by piping it into `zerv version --source stdin` equals the rendering produced directly"."""
    import re
    t0 = time.time()
    res = {"family": "cli_pipe", "bound": PIPE_BOUND, "cases": 0}
    ok, msg = rengine.build_zerv()
    if not ok:
        res.update(status="error", lines=["the zerv binary does not build from the working tree: " + msg[-400:]])
        return res
    zerv = rengine.ZERV
    work = tempfile.mkdtemp(prefix="verif_pipe_")
    classes = {}

    def bad(cls, text):
        classes.setdefault(cls, []).append(f"CEX cli_pipe class={cls} {text}")

    mask = lambda b: re.sub(rb"\d{9,}", b"<ts>", b)   # the wall-clock dev timestamp of dirty states
    try:
        env = {k: v for k, v in os.environ.items() if not k.startswith("RUST_LOG") and not k.startswith("ZERV_")}
        env.update(TZ="Pacific/Kiritimati", HOME=work, NO_COLOR="1")
        for argv in PIPE_VECTORS:
            show = " ".join(repr(a) for a in argv)
            rc, obj, err = _run(zerv, argv + ["--output-format", "zerv"], None, work, env)
            res["cases"] += 1
            if rc != 0:
                continue   # a rejected vector has nothing to pipe (the stream discipline is C13's family)
            rc2, again, err2 = _run(zerv, ["version", "--source", "stdin", "--output-format", "zerv"], obj, work, env)
            if rc2 != 0:
                cls = "emitted-object-rejected"
                if b"recursion limit" in err2:
                    # the recorded finding is about 63 and more levels (ron's reader stops at 128 RON levels); a shallower document that is refused is not it
                    depth = 0
                    if "--custom" in argv:
                        cur = 0
                        for ch in argv[argv.index("--custom") + 1]:
                            if ch in "[{":
                                cur += 1
                                depth = max(depth, cur)
                            elif ch in "]}":
                                cur -= 1
                    cls = "custom-json-nested-deeper-than-the-reader" if depth >= 63 else "custom-json-of-moderate-depth-rejected"
                bad(cls, f"`zerv {show} --output-format zerv` emits an object that `zerv version --source stdin` rejects: {err2.decode('utf-8', 'replace').strip()[:160]!r}")
                continue
            if mask(again) != mask(obj):
                bad("re-emission-differs", f"`zerv {show}`: the emitted object changes when piped through `zerv version --source stdin --output-format zerv`: "
                                           f"{[l for l in obj.decode('utf-8', 'replace').splitlines() if l not in again.decode('utf-8', 'replace').splitlines()][:4]!r} vs "
                                           f"{[l for l in again.decode('utf-8', 'replace').splitlines() if l not in obj.decode('utf-8', 'replace').splitlines()][:4]!r}")
            for fmt in ("semver", "pep440"):
                res["cases"] += 1
                if "--output-prefix" in argv:
                    continue   # the prefix belongs to the direct rendering only; what matters for these vectors is that the emitted object reads back
                rd, direct, _ = _run(zerv, argv + ["--output-format", fmt], None, work, env)
                rp, piped, _ = _run(zerv, ["version", "--source", "stdin", "--output-format", fmt], obj, work, env)
                if rd != rp or mask(direct) != mask(piped):
                    bad("pipe-rendering-differs", f"`zerv {show}` renders {fmt} as {direct.decode('utf-8', 'replace').strip()!r} (status {rd}) directly but "
                                                  f"{piped.decode('utf-8', 'replace').strip()!r} (status {rp}) through the RON pipe")
        # "re-emits byte-identically": an emitted object whose state is dirty, with a fixed bumped_timestamp (what zerv emits at that second)
        rc, obj, _ = _run(zerv, ["version"] + NONE + ["1.2.3", "--no-dirty", "--distance", "2", "--bumped-timestamp", "1700000000", "--schema", "calver", "--output-format", "zerv"], None, work, env)
        res["cases"] += 1
        if rc == 0 and b"dirty: Some(false)" in obj and b"bumped_timestamp: Some(1700000000)" in obj:
            doc = obj.replace(b"dirty: Some(false)", b"dirty: Some(true)")
            rc2, again, _ = _run(zerv, ["version", "--source", "stdin", "--output-format", "zerv"], doc, work, env)
            if rc2 != 0:
                bad("emitted-object-rejected", "the calver object with dirty: Some(true) is rejected on stdin")
            elif again != doc:
                diff = [l.strip() for l in again.decode("utf-8", "replace").splitlines() if l not in doc.decode("utf-8", "replace").splitlines()][:3]
                cls = "dirty-timestamp-rewritten" if mask(again) == mask(doc) else "re-emission-differs"
                bad(cls, f"an object with dirty: Some(true) and bumped_timestamp: Some(1700000000) re-emits with {diff!r} through `zerv version --source stdin --output-format zerv` "
                         "(every pass replaces the stored timestamp by the wall clock, so the piped rendering of calver / timestamp schemas differs from the direct one)")
        else:
            res.update(status="error", lines=["harness: the calver object was not emitted as expected"])
            return res
        # "input that is not valid RON, or whose schema violates them … is rejected with an error rather than rendered"
        for cls, doc in PIPE_REFUSED:
            for fmt in ("semver", "pep440", "zerv"):
                res["cases"] += 1
                rc, out, err = _run(zerv, ["version", "--source", "stdin", "--output-format", fmt], doc.encode(), work, env)
                if rc == 0 or out.strip():
                    bad("refusal::" + cls, f"the document {doc[:150]!r} is rendered as {out.decode('utf-8', 'replace').strip()[:60]!r} (status {rc}) instead of being refused ({fmt})")
                    break
    finally:
        shutil.rmtree(work, ignore_errors=True)
    res["wall_s"] = round(time.time() - t0, 2)
    if classes:
        lines = [l for v in classes.values() for l in v]
        res.update(status="cex", lines=lines[:5], classes={k: v[:5] for k, v in classes.items()})
    else:
        res.update(status="no-cex", lines=[])
    return res


BUMPS_BOUND = ("start version 1!1.2.3rc2.post4.dev5 (and 1.2.3) x every single flag and every pair out of 22 override / bump flags (with and without an amount; "
               "label overrides and bumps) through the real CLI (`zerv version --source none`, schema standard-base-prerelease-post-dev, PEP 440 output), "
               "compared with the statement's level semantics written in Python")

_LEVELS = ["epoch", "major", "minor", "patch", "label", "num", "post", "dev"]


def _oracle(start, ops):
    """start: dict epoch, major, minor, patch, pre=(label, num)|None, post, dev; ops: dict level -> (override, bump) / for label (override_text, bump_text)"""
    st = dict(start)

    def reset_below(level):
        i = _LEVELS.index(level)
        for l in _LEVELS[i + 1:]:
            if l in ("major", "minor", "patch", "epoch"):
                st[l] = 0
            elif l == "label":
                st["pre"] = None
            elif l == "num":
                if st["pre"] is not None:
                    st["pre"] = (st["pre"][0], 0)
            else:
                st[l] = None

    for level in _LEVELS:
        o, b = ops.get(level, (None, None))
        if level in ("epoch", "major", "minor", "patch", "post", "dev"):
            if o is not None:
                st[level] = o
            if b is not None:
                st[level] = (st[level] or 0) + b
                reset_below(level)
        elif level == "label":
            if o is not None:
                onum = ops.get("num", (None, None))[0]
                existing = st["pre"][1] if st["pre"] is not None else None
                st["pre"] = (o, onum if onum is not None else (existing if existing is not None else 0))
            if b is not None:
                reset_below("label")
                st["pre"] = (b, 0)
        elif level == "num":
            if o is not None:
                st["pre"] = ((st["pre"][0] if st["pre"] is not None else "alpha"), o)
            if b is not None:
                if st["pre"] is None:
                    st["pre"] = ("alpha", b)
                else:
                    st["pre"] = (st["pre"][0], (st["pre"][1] or 0) + b)
                reset_below("num")
    out = ""
    if st["epoch"]:
        out += f"{st['epoch']}!"
    out += f"{st['major'] or 0}.{st['minor'] or 0}.{st['patch'] or 0}"
    if st["pre"] is not None:
        out += {"alpha": "a", "beta": "b", "rc": "rc"}[st["pre"][0]] + str(st["pre"][1] if st["pre"][1] is not None else 0)
    if st["post"] is not None:
        out += f".post{st['post']}"
    if st["dev"] is not None:
        out += f".dev{st['dev']}"
    return out


def run_bumps(tier="quick", seed=0):
    """C05 end to end through the real CLI: flags -> clap -> defaults -> templates -> level processing -> rendering."""
    import itertools
    t0 = time.time()
    res = {"family": "cli_bumps", "bound": BUMPS_BOUND, "cases": 0}
    ok, msg = rengine.build_zerv()
    if not ok:
        res.update(status="error", lines=["the zerv binary does not build from the working tree: " + msg[-400:]])
        return res
    zerv = rengine.ZERV
    work = tempfile.mkdtemp(prefix="verif_bumps_")
    classes = {}

    def bad(cls, text):
        classes.setdefault(cls, []).append(f"CEX cli_bumps class={cls} {text}")

    # (argv fragment, level, (override, bump))
    flags = []
    for level in ("epoch", "major", "minor", "patch", "post", "dev"):
        flags.append(([f"--{level}", "7"], level, (7, None)))
        flags.append(([f"--bump-{level}"], level, (None, 1)))
        flags.append(([f"--bump-{level}", "3"], level, (None, 3)))
    flags.append((["--pre-release-num", "6"], "num", (6, None)))
    flags.append((["--bump-pre-release-num"], "num", (None, 1)))
    flags.append((["--pre-release-label", "beta"], "label", ("beta", None)))
    flags.append((["--bump-pre-release-label", "alpha"], "label", (None, "alpha")))
    starts = [("1!1.2.3rc2.post4.dev5", dict(epoch=1, major=1, minor=2, patch=3, pre=("rc", 2), post=4, dev=5)),
              ("1.2.3", dict(epoch=None, major=1, minor=2, patch=3, pre=None, post=None, dev=None))]
    combos = [(f,) for f in flags] + [c for c in itertools.combinations(flags, 2) if c[0][1] != c[1][1] or (c[0][2][0] is None) != (c[1][2][0] is None)]
    try:
        env = {k: v for k, v in os.environ.items() if not k.startswith("RUST_LOG") and not k.startswith("ZERV_")}
        env.update(TZ="Pacific/Kiritimati", HOME=work, NO_COLOR="1")
        for tag, start in starts:
            for combo in combos:
                ops = {}
                argv = ["version", "--source", "none", "--tag-version", tag, "--input-format", "pep440", "--output-format", "pep440",
                        "--schema", "standard-base-prerelease-post-dev"]
                skip = False
                for frag, level, (o, b) in combo:
                    po, pb = ops.get(level, (None, None))
                    if (o is not None and po is not None) or (b is not None and pb is not None):
                        skip = True
                    ops[level] = (o if o is not None else po, b if b is not None else pb)
                    argv += frag
                if skip or (ops.get("label", (None, None))[0] is not None and ops.get("label", (None, None))[1] is not None):
                    continue   # --pre-release-label together with --bump-pre-release-label is a documented conflict
                res["cases"] += 1
                want = _oracle(start, ops)
                rc, out, err = _run(zerv, argv, None, work, env)
                got = out.decode("utf-8", "replace").strip()
                if rc != 0 or got != want:
                    bad("bounded-agreement", f"`zerv {' '.join(argv[2:])}`: status {rc}, prints {got!r}; the level semantics give {want!r}"
                        + (f" (stderr: {err.decode('utf-8', 'replace')[:160]!r})" if rc != 0 else ""))
        # ---- corners reported by the bug hunt; each class is one recorded finding
        def one(argv, cls, expect, why):
            res["cases"] += 1
            rc, out, err = _run(zerv, argv, None, work, env)
            got = out.decode("utf-8", "replace").strip()
            if rc != 0 or got != expect:
                bad(cls, f"`zerv {' '.join(argv)}`: status {rc}, prints {got!r}; {why} gives {expect!r}")
        V = ["version", "--source", "none", "--output-format", "semver"]
        ron = "(core:[var(Major),var(Minor),var(Patch)],extra_core:[var(PreRelease),var(Post),var(Dev)],build:[],precedence_order:ORDER)"
        one(V + ["--tag-version", "1.2.3", "--schema-ron", ron.replace("ORDER", "[]"), "--major", "7", "--bump-minor", "--post", "4"], "custom-precedence-order",
            "7.3.0-post.4", "the statement's fixed level order")
        one(V + ["--tag-version", "1.2.3", "--schema-ron", ron.replace("ORDER", "[Minor,Major]"), "--bump-minor", "--patch", "9"], "custom-precedence-order",
            "1.3.9", "the statement's fixed level order")
        lit = "(core:[uint(2024),var(Major),var(Minor),var(Patch)],extra_core:[var(PreRelease),var(Post),var(Dev)],build:[])"
        one(V + ["--tag-version", "1.2.3-rc.4.post.5.dev.6", "--schema-ron", lit, "--bump-core", "0"], "literal-component-bump-no-reset",
            "2025.1.2-3", "'a bump resets every lower level' (core section level: pre-release, post and dev absent)")
        S = ["--schema", "standard-base-prerelease-post-dev", "--tag-version", "1.2.3-rc.4.post.5.dev.6"]
        one(V + S + ["--bump-major", "none"], "none-like-flag-value", "2.0.0", "'a bump then adds its amount (default 1)' — or a refusal of the non-numeric amount")
        rcx, outx, errx = _run(zerv, V + S + ["--major", ""], None, work, env)
        res["cases"] += 1
        if rcx == 0:
            bad("none-like-flag-value", f"`zerv … --major ''`: status 0, prints {outx.decode('utf-8', 'replace').strip()!r}; a non-numeric value for a numeric component is to be rejected without output")
        dev_first = "(core:[var(Major),var(Minor),var(Patch)],extra_core:[var(Dev),var(Post),var(PreRelease)],build:[])"
        res["cases"] += 1
        r1 = _run(zerv, V + ["--tag-version", "1.2.3-rc.4.post.5.dev.6", "--schema-ron", dev_first, "--bump-extra-core", "0", "--bump-extra-core", "1"], None, work, env)
        r2 = _run(zerv, V + ["--tag-version", "1.2.3-rc.4.post.5.dev.6", "--schema-ron", dev_first, "--bump-dev", "--bump-post"], None, work, env)
        if r1[0] != r2[0] or r1[1] != r2[1]:
            bad("section-index-order", f"extra_core [dev, post, pre-release]: `--bump-extra-core 0 --bump-extra-core 1` prints {r1[1].decode('utf-8', 'replace').strip()!r}, "
                                       f"the by-name flags `--bump-dev --bump-post` print {r2[1].decode('utf-8', 'replace').strip()!r}")
        # "an index-addressed operation (`--bump-core i`, `--core i=v`, negative or `~n` indices) performs … the same override or bump
        # on the component at that position as the by-name flag would": each index form against the by-name flag
        base = ["version", "--source", "none", "--tag-version", "1.2.3-rc.4.post.5.dev.6", "--output-format", "semver", "--schema", "standard-base-prerelease-post-dev"]
        pairs = [(["--bump-core", "2"], ["--bump-patch"]), (["--bump-core", "~1"], ["--bump-patch"]), (["--bump-core=-1"], ["--bump-patch"]), (["--bump-core", "~3=2"], ["--bump-major", "2"]),
                 (["--bump-core", "0=4"], ["--bump-major", "4"]), (["--core", "1=9"], ["--minor", "9"]), (["--core", "~2=9"], ["--minor", "9"]), (["--core=-3=7"], ["--major", "7"]),
                 (["--bump-extra-core", "~1"], ["--bump-dev"]), (["--bump-extra-core", "2"], ["--bump-post"]), (["--extra-core", "~2=8"], ["--post", "8"]),
                 (["--bump-extra-core", "1=3"], ["--bump-pre-release-num", "3"]), (["--extra-core", "0=6"], ["--epoch", "6"])]
        for by_index, by_name in pairs:
            res["cases"] += 1
            r1 = _run(zerv, base + by_index, None, work, env)
            r2 = _run(zerv, base + by_name, None, work, env)
            if r1[0] != r2[0] or r1[1] != r2[1]:
                bad("index-addressed", f"`zerv … {' '.join(by_index)}` gives status {r1[0]} {r1[1].decode('utf-8', 'replace').strip()!r} "
                                       f"({r1[2].decode('utf-8', 'replace').strip()[:120]!r}); the by-name flag `{' '.join(by_name)}` gives status {r2[0]} {r2[1].decode('utf-8', 'replace').strip()!r}")
        # "invalid targets (out of range, …) are rejected without output": indices at and just beyond both ends of each section
        # (core has 3 components, extra-core 4, build none in this schema)
        for sec, n in (("core", 3), ("extra-core", 4), ("build", 0)):
            outs = [str(n), str(n + 1), f"=-{n + 1}", f"~{n + 1}", f"{n}=7", f"~{n + 1}=7", "~0", "=-0" if n == 0 else f"=-{n + 2}"]
            for o in outs:
                for flag in (f"--bump-{sec}", f"--{sec}"):
                    if flag == f"--{sec}" and "=" not in o.lstrip("="):
                        continue    # an override needs index=value
                    arg = [flag + o] if o.startswith("=") else [flag, o]
                    res["cases"] += 1
                    r1 = _run(zerv, base + arg, None, work, env)
                    if r1[0] == 0 or r1[1].strip():
                        bad("index-out-of-range-accepted", f"`zerv … {' '.join(arg)}` (section of {n} components) gives status {r1[0]} and prints "
                                                           f"{r1[1].decode('utf-8', 'replace').strip()!r}; an out-of-range index must be rejected without output")
        # "invalid targets (… duplicate index …) are rejected without output": the same position addressed twice in one list, in the same and in
        # different spellings (plain, negative, tilde)
        dups = [["--bump-core", "1", "--bump-core", "1=4"], ["--bump-core", "1", "--bump-core", "~2=4"], ["--bump-core", "1=4", "--bump-core", "~2"],
                ["--bump-core=2", "--bump-core=-1"], ["--bump-core", "~1", "--bump-core=-1"], ["--core", "1=5", "--core", "~2=7"], ["--core", "0=5", "--core=-3=7"],
                ["--bump-extra-core", "0", "--bump-extra-core", "~4"], ["--extra-core", "3=5", "--extra-core=-1=7"]]
        for arg in dups:
            res["cases"] += 1
            r1 = _run(zerv, base + arg, None, work, env)
            if r1[0] == 0 or r1[1].strip():
                bad("duplicate-index-accepted", f"`zerv … {' '.join(arg)}` addresses one position twice but gives status {r1[0]} and prints "
                                                f"{r1[1].decode('utf-8', 'replace').strip()!r}; a duplicate index must be rejected without output")
    finally:
        shutil.rmtree(work, ignore_errors=True)
    res["wall_s"] = round(time.time() - t0, 2)
    if classes:
        lines = [l for v in classes.values() for l in v]
        res.update(status="cex", lines=lines[:5], classes={k: v[:5] for k, v in classes.items()})
    else:
        res.update(status="no-cex", lines=[])
    return res


VERDICT_BOUND = ("about 90 version texts per format (valid spellings, `v` / `vv` / `V` prefixes, surrounding whitespace, non-ASCII digits and letters, "
                 "empty parts, leading zeros, numbers around the integer limits): `zerv check --format semver|pep440 -- <text>` accepts exactly the "
                 "texts the library parser accepts and reports the parser's printed form as the normalised form")

VERDICT_TEXTS = ["1.2.3", "v1.2.3", "vv1.2.3", "V1.2.3", "vvv0.0.0-a+b", " 1.2.3", "1.2.3 ", "1.2.3\t", "1.2", "1", "1.2.3.4", "01.2.3", "1.02.3", "1.2.3-", "1.2.3+",
                 "1.2.3-alpha", "1.2.3-alpha.1", "1.2.3-01", "1.2.3-0a", "1.2.3-a..b", "1.2.3-a+b", "1.2.3+a+b", "1.2.3+00", "1.2.3-é", "١.٢.٣", "1.2.3-٣", "1.2.3+٣",
                 "1.2.3-rc.1+build.7", "1.2.3--", "1.2.3-x-y", "18446744073709551615.0.0", "18446744073709551616.0.0", "1.0.0-18446744073709551616", "",
                 "v", "-1.2.3", "+1.2.3", "1.2.3-a_b", "1.2.3-Ａ", "1.0a1", "1.0.a.1", "1.0-alpha_1", "1.0A1", "1.0b", "1.0rc1", "1.0c1", "1.0pre1", "1.0preview1",
                 "1.0.post1", "1.0-1", "1.0.POST-2", "1.0r2", "1.0rev2", "1.0.dev1", "1.0dev", "1.0.DEV-3", "1!1.0", "0!1.0", "1!", "!1.0", "1.0+abc", "1.0+ABC.1",
                 "1.0+a-b_c", "1.0+", "1.0+a..b", "1.0+é", "1.0+ſ", "1.0+K", "1.0a1b2", "1.0.dev1.post1", "1..0", "1.0.", ".1.0", "v1.0", "vv1.0", "V1.0rc1",
                 "1.0\n", "1.0 ", "1.0rc١", "4294967296!1.0", "1.4294967296", "1.0.post4294967296", "1.0+4294967296", "1.0+04294967296", "00001", "1.0a01",
                 "1_0", "1.0_post1", "1.0post", "1.0.post.dev", "1.2.3a.post.dev"]


def run_verdict(tier="quick", seed=0):
    """C08 / C09: "`zerv check --format …` gives the same verdict (and normal form)" as the parser."""
    import re
    import cexengine
    t0 = time.time()
    res = {"family": "cli_check_verdict", "bound": VERDICT_BOUND, "cases": 0}
    ok, msg = rengine.build_zerv()
    okc, errc, _ = cexengine.build()
    if not ok or not okc:
        res.update(status="error", lines=["build failed: " + (msg if not ok else errc)[-400:]])
        return res
    zerv = rengine.ZERV
    work = tempfile.mkdtemp(prefix="verif_verdict_")
    classes = {}
    try:
        env = {k: v for k, v in os.environ.items() if not k.startswith("RUST_LOG") and not k.startswith("ZERV_")}
        env.update(HOME=work, NO_COLOR="1")
        texts = [t for t in VERDICT_TEXTS if "\n" not in t]
        for fmt in ("semver", "pep440"):
            p = subprocess.run([cexengine.BIN, "verdict", fmt], input="\n".join(texts) + "\n", capture_output=True, text=True, timeout=120)
            lib = p.stdout.split("\n")
            for i, t in enumerate(texts):
                res["cases"] += 1
                want = lib[i] if i < len(lib) else "?"
                rc, out, err = _run(zerv, ["check", "--format", fmt, "--", t], None, work, env)
                text = out.decode("utf-8", "replace")
                accepted = rc == 0
                if accepted != want.startswith("A"):
                    classes.setdefault("verdict-differs", []).append(
                        f"CEX cli_check_verdict class=verdict-differs `zerv check --format {fmt} -- {t!r}` says {'valid' if accepted else 'invalid'} (status {rc}) "
                        f"but the {fmt} parser {'accepts' if want.startswith('A') else 'rejects'} it")
                    continue
                if accepted:
                    m = re.search(r"normalized: (.*)\)", text)
                    shown = m.group(1) if m else t
                    if shown != want[2:]:
                        classes.setdefault("normal-form-differs", []).append(
                            f"CEX cli_check_verdict class=normal-form-differs `zerv check --format {fmt} -- {t!r}` reports {shown!r}, the parser prints {want[2:]!r}")
            # the verdict is a function of the string: what happens to be on stdin (check does not read a version from it) must not change it
            for t in ("1.2.3", "1.2", "not-a-version"):
                for what, data in (("bytes that are not UTF-8", b"\xff\xfe\x00junk"), ("an unrelated text", b"hello\n")):
                    res["cases"] += 1
                    rc0, out0, _ = _run(zerv, ["check", "--format", fmt, "--", t], None, work, env)
                    rc1, out1, err1 = _run(zerv, ["check", "--format", fmt, "--", t], data, work, env)
                    if rc0 != rc1 or out0 != out1:
                        classes.setdefault("verdict-depends-on-stdin", []).append(
                            f"CEX cli_check_verdict class=verdict-depends-on-stdin `zerv check --format {fmt} -- {t!r}` with {what} on stdin: status {rc1} "
                            f"{err1.decode('utf-8', 'replace').strip()[:100]!r}; with an empty stdin: status {rc0}")
    finally:
        shutil.rmtree(work, ignore_errors=True)
    res["wall_s"] = round(time.time() - t0, 2)
    if classes:
        lines = [l for v in classes.values() for l in v]
        res.update(status="cex", lines=lines[:5], classes={k: v[:5] for k, v in classes.items()})
    else:
        res.update(status="no-cex", lines=[])
    return res


TEMPLATE_BOUND = ("process-level view of the template output: 12 `--output-template` vectors through the real binary whose exact output is fixed by the statement "
                  "(scalar variables equal the Zerv variables, parts recompose, prefix_if) — values spelled none / null / nil, surrounding whitespace")


def run_template_output(tier="quick", seed=0):
    """C15 at the process level: the template's result is what stdout shows."""
    t0 = time.time()
    res = {"family": "cli_template_output", "bound": TEMPLATE_BOUND, "cases": 0}
    ok, msg = rengine.build_zerv()
    if not ok:
        res.update(status="error", lines=["the zerv binary does not build from the working tree: " + msg[-400:]])
        return res
    zerv = rengine.ZERV
    work = tempfile.mkdtemp(prefix="verif_tpl_")
    classes = {}
    try:
        env = {k: v for k, v in os.environ.items() if not k.startswith("RUST_LOG") and not k.startswith("ZERV_")}
        env.update(HOME=work, NO_COLOR="1")
        V = ["version", "--source", "none", "--tag-version", "1.2.3"]
        vectors = [
            (V + ["--bumped-branch", "main", "--output-template", "{{ bumped_branch }}"], "main", None),
            (V + ["--bumped-branch", "main", "--output-template", "{{ major }}.{{ minor }}.{{ patch }}|{{ semver }}|{{ pep440 }}"], "1.2.3|1.2.3|1.2.3", None),
            (["render", "1.2.3-rc.1+b.7", "--output-template", "{{ semver_obj.base_part }}-{{ semver_obj.pre_release_part }}+{{ semver_obj.build_part }}"], "1.2.3-rc.1+b.7", None),
            (V + ["--bumped-branch", "x", "--output-template", "{{ prefix_if(value=bumped_branch, prefix='+') }}"], "+x", None),
            (V + ["--bumped-branch", "nil", "--output-template", "{{ bumped_branch }}"], "nil", "template-result-none-like"),
            (V + ["--bumped-branch", "NoNe", "--output-template", "{{ bumped_branch }}"], "NoNe", "template-result-none-like"),
            (["render", "1.2.3+nil", "--output-template", "{{ semver_obj.build_part }}"], "nil", "template-result-none-like"),
            (["render", "1.2.3-null", "--output-template", "{{ semver_obj.pre_release_part }}"], "null", "template-result-none-like"),
            (V + ["--output-template", "{{ prefix(value='nilpotent', length=3) }}"], "nil", "template-result-none-like"),
            (V + ["--bumped-branch", "  padded  ", "--output-template", "{{ bumped_branch }}"], "  padded  ", "template-result-trimmed"),
            (V + ["--bumped-branch", "x", "--output-template", "{{ prefix_if(value=bumped_branch, prefix=' ') }}"], " x", "template-result-trimmed"),
            (V + ["--bumped-branch", "x", "--output-template", "[{{ prefix_if(value=bumped_branch, prefix=' ') }}]"], "[ x]", None),
        ]
        for argv, want, cls in vectors:
            res["cases"] += 1
            rc, out, err = _run(zerv, argv, None, work, env)
            got = out.decode("utf-8", "replace")
            got = got[:-1] if got.endswith("\n") else got
            if rc != 0 or got != want:
                c = cls or "bounded-agreement"
                classes.setdefault(c, []).append(f"CEX cli_template_output class={c} `zerv {' '.join(argv)}`: status {rc}, prints {got!r}; the template's result is {want!r}")
    finally:
        shutil.rmtree(work, ignore_errors=True)
    res["wall_s"] = round(time.time() - t0, 2)
    if classes:
        lines = [l for v in classes.values() for l in v]
        res.update(status="cex", lines=lines[:5], classes={k: v[:5] for k, v in classes.items()})
    else:
        res.update(status="no-cex", lines=[])
    return res


GIT_BOUND = ("a scripted `git` (canned, mutually consistent answers for the eleven git invocations zerv makes: one commit after tag v1.2.3 on branch main) with each "
             "invocation in turn made to exit 128, to print nothing, or to print garbage, for `zerv version` and `zerv flow`: a failing or nonsensical answer must "
             "give a non-zero status and nothing on stdout — never a different version with status 0")

_FAKE_GIT = r'''#!/bin/sh
HEAD=0123456789abcdef0123456789abcdef01234567
BASE=89abcdef0123456789abcdef0123456789abcdef
key=other; out=""
case "$*" in
  "--version") key=version; out="git version 2.39.0";;
  "rev-parse HEAD") key=revparse; out=$HEAD;;
  "log -1 --format=%ct") key=ct; out=1710511845;;
  "status --porcelain") key=status; out="";;
  "branch --show-current") key=branch; out=main;;
  "rev-list --topo-order HEAD") key=topo; out="$HEAD
$BASE";;
  "log --tags --no-walk --format=%H") key=tagged; out=$BASE;;
  "tag --points-at $BASE") key=tags; out=v1.2.3;;
  "tag --points-at $HEAD") key=tagshead; out="";;
  "rev-list --count v1.2.3..HEAD") key=count; out=1;;
  "show -s --format=%ct v1.2.3^{commit}") key=tagts; out=1710000000;;
  "rev-list -n 1 v1.2.3") key=taghash; out=$BASE;;
  *) echo "fake git: unexpected invocation: $*" >&2; exit 64;;
esac
if [ "$FAIL_KEY" = "$key" ]; then
  case "$FAIL_MODE" in
    exit) echo "fatal: simulated failure" >&2; exit 128;;
    empty) exit 0;;
    garbage) printf '\\377\\376 not what you expected 99999999999999999999\\n'; exit 0;;
  esac
fi
[ -n "$out" ] && printf '%s\\n' "$out"
exit 0
'''


def run_git_failures(tier="quick", seed=0):
    """C13: "including any single git sub-command failing" — each git invocation sabotaged in turn, all others sane."""
    t0 = time.time()
    res = {"family": "cli_git_failures", "bound": GIT_BOUND, "cases": 0}
    ok, msg = rengine.build_zerv()
    if not ok:
        res.update(status="error", lines=["the zerv binary does not build from the working tree: " + msg[-400:]])
        return res
    zerv = rengine.ZERV
    work = tempfile.mkdtemp(prefix="verif_git_")
    classes = {}

    def bad(cls, text):
        classes.setdefault(cls, []).append(f"CEX cli_git_failures class={cls} {text}")

    try:
        bindir = os.path.join(work, "bin")
        repo = os.path.join(work, "repo")
        os.makedirs(bindir)
        os.makedirs(os.path.join(repo, ".git"))
        with open(os.path.join(bindir, "git"), "w") as fh:
            fh.write(_FAKE_GIT.replace("\\\\", "\\"))
        os.chmod(os.path.join(bindir, "git"), 0o755)
        env0 = {k: v for k, v in os.environ.items() if not k.startswith("RUST_LOG") and not k.startswith("ZERV_")}
        env0.update(HOME=work, NO_COLOR="1", PATH=bindir + ":/usr/bin:/bin")
        base = {}
        for sub in ("version", "flow"):
            rc, out, err = _run(zerv, [sub, "-C", repo], None, work, env0)
            res["cases"] += 1
            base[sub] = out
            if rc != 0 or not out.strip():
                bad("harness", f"the scripted git does not give a baseline for `zerv {sub}`: status {rc}, {err.decode('utf-8', 'replace')[-200:]!r}")
        if classes:
            # the scripted git no longer matches the invocations zerv makes: nothing can be concluded (undecided, not an alarm)
            res.update(status="error", lines=["scripted git out of date: " + classes["harness"][0][:300]])
            return res
        if not classes:
            keys = ["revparse", "ct", "status", "branch", "topo", "tagged", "tags", "count", "tagts", "taghash"]
            for key in keys:
                for mode in ("exit", "empty", "garbage"):
                    for sub in ("version", "flow"):
                        res["cases"] += 1
                        rc, out, err = _run(zerv, [sub, "-C", repo], None, work, dict(env0, FAIL_KEY=key, FAIL_MODE=mode))
                        if rc is None or rc < 0 or rc == 101 or b"panicked at" in err:
                            bad("panic", f"`zerv {sub}` with git `{key}` in mode {mode}: panicked / killed (status {rc})")
                        elif rc == 0 and out != base[sub] and mode == "exit":
                            bad("git-failure-swallowed", f"`zerv {sub}` with the git invocation `{key}` exiting 128: status 0, prints {out.decode('utf-8', 'replace').strip()!r} "
                                                         f"(all invocations sane: {base[sub].decode('utf-8', 'replace').strip()!r}); a failing git sub-command is to give a non-zero status and nothing on stdout")
                        elif rc == 0 and mode == "exit" and key not in ("status",):
                            bad("git-failure-swallowed", f"`zerv {sub}` with the git invocation `{key}` exiting 128: status 0, prints the baseline {out.decode('utf-8', 'replace').strip()!r} as if nothing had failed")
                        elif rc == 0 and mode in ("empty", "garbage") and out != base[sub] and key not in ("status", "branch", "tags", "tagged", "topo"):
                            bad("git-garbage-accepted", f"`zerv {sub}` with the git invocation `{key}` answering {'nothing' if mode == 'empty' else 'garbage'} (status 0): zerv prints "
                                                        f"{out.decode('utf-8', 'replace').strip()!r} with status 0 (sane answers: {base[sub].decode('utf-8', 'replace').strip()!r})")
                        elif rc != 0 and out:
                            bad("stdout-on-failure", f"`zerv {sub}` with git `{key}` in mode {mode}: status {rc} but stdout {out[:100]!r}")
    finally:
        shutil.rmtree(work, ignore_errors=True)
    res["wall_s"] = round(time.time() - t0, 2)
    if classes:
        lines = [l for v in classes.values() for l in v]
        res.update(status="cex", lines=lines[:5], classes={k: v[:5] for k, v in classes.items()})
    else:
        res.update(status="no-cex", lines=[])
    return res


ONE_LINE_BOUND = ("14 prefixes (absent, ASCII, non-ASCII, blank, tab, CR, with a line feed at the start / middle / end) x 11 argument vectors of version / flow / render "
                  "x semver and pep440: whenever the exit status is 0, stdout is the prefix, then one string matching the SemVer 2.0.0 / canonical PEP 440 grammar (ASCII), "
                  "then one line feed and nothing else (thorough: + 300 seeded random prefix / state combinations)")
_SEMVER_RE = (r"(0|[1-9][0-9]*)\.(0|[1-9][0-9]*)\.(0|[1-9][0-9]*)(-((0|[1-9][0-9]*|[0-9]*[a-zA-Z-][0-9a-zA-Z-]*)(\.(0|[1-9][0-9]*|[0-9]*[a-zA-Z-][0-9a-zA-Z-]*))*))?"
              r"(\+([0-9a-zA-Z-]+(\.[0-9a-zA-Z-]+)*))?")
_PEP440_RE = (r"([1-9][0-9]*!)?(0|[1-9][0-9]*)(\.(0|[1-9][0-9]*))*((a|b|rc)(0|[1-9][0-9]*))?(\.post(0|[1-9][0-9]*))?(\.dev(0|[1-9][0-9]*))?"
              r"(\+[a-z0-9]+(\.[a-z0-9]+)*)?")
_PREFIXES = [None, "v", "release-", "ü-", " ", "\t", "x\r", "v\n", "a\nb", "\n", "\nrelease-", "x\n\n", "\r\n", "1.2.3\n"]
_ONE_LINE_VECTORS = [
    ["version"] + NONE + ["1.2.3"],
    ["version"] + NONE + ["1.2.3-rc.1", "--bump-pre-release-num", "--post", "3"],
    ["version"] + NONE + ["1.2.3", "--distance", "3", "--dirty", "--bumped-branch", "féature/٣x \"q\"\nz", "--bumped-commit-hash", "abcdef123456", "--schema", "standard-context"],
    ["version"] + NONE + ["1.2.3", "--schema", "calver-base-prerelease-post-dev-context", "--bumped-timestamp", "1710511845", "--epoch", "2"],
    ["version"] + NONE + ["1.2.3", "--custom", "{\"k\": \"a\\nb\"}", "--schema-ron", "(core:[var(Major),var(Minor),var(Patch)],extra_core:[],build:[var(custom(\"k\")),str(\"x\\ny\")])"],
    ["flow"] + NONE + ["1.2.3", "--distance", "2", "--bumped-branch", "feature/x\ny"],
    ["flow"] + NONE + ["1.2.3-beta.4", "--distance", "2", "--bumped-branch", "release/7", "--no-dirty"],
    ["render", "1.2.3-rc.1.post.4+build.5"],
    ["render", "1!2.0rc1.post2.dev3+x.1", "--input-format", "pep440"],
    # every component of the build section resolves to the empty text (a branch without one ASCII letter or digit; no distance, no hash): nothing may follow the core
    ["version"] + NONE + ["1.2.3", "--schema", "standard-base-context", "--bumped-branch", "日本語"],
    ["version"] + NONE + ["2.0.0", "--bumped-branch", "___", "--schema-ron", "(core:[var(Major),var(Minor),var(Patch)],extra_core:[var(BumpedBranch)],build:[var(BumpedBranch),str(\"-\")])"],
]


def run_one_line(tier="quick", seed=0):
    """C01: "stdout is exactly one line: the optional --output-prefix followed by a string that is valid SemVer 2.0.0 (resp. a normalised PEP 440 version)"."""
    import re
    import random
    t0 = time.time()
    res = {"family": "cli_one_line", "bound": ONE_LINE_BOUND, "cases": 0}
    ok, msg = rengine.build_zerv()
    if not ok:
        res.update(status="error", lines=["the zerv binary does not build from the working tree: " + msg[-400:]])
        return res
    zerv = rengine.ZERV
    work = tempfile.mkdtemp(prefix="verif_line_")
    classes = {}
    grammar = {"semver": re.compile(_SEMVER_RE), "pep440": re.compile(_PEP440_RE)}

    def bad(cls, text):
        classes.setdefault(cls, []).append(f"CEX cli_one_line class={cls} {text}")

    def one(argv, prefix, fmt):
        res["cases"] += 1
        full = argv + ["--output-format", fmt] + ([] if prefix is None else ["--output-prefix", prefix])
        rc, out, err = _run(zerv, full, None, work, env)
        if rc != 0:
            return
        show = " ".join(repr(a) for a in full)
        try:
            text = out.decode("utf-8")
        except UnicodeDecodeError:
            bad("not-text", f"`zerv {show}` writes bytes that are not UTF-8: {out[:80]!r}")
            return
        pre = prefix or ""
        if text.count("\n") != 1 or not text.endswith("\n"):
            bad("prefix-line-break" if "\n" in pre else "not-one-line", f"`zerv {show}` exits 0 and writes {text.count(chr(10))} line feeds: {text[:80]!r}")
            return
        if not text.startswith(pre):
            bad("prefix-missing", f"`zerv {show}` writes {text[:80]!r}, which does not start with the prefix")
            return
        version = text[len(pre):-1]
        if not grammar[fmt].fullmatch(version):
            bad("not-in-grammar", f"`zerv {show}` writes {version[:120]!r} after the prefix, which is not {fmt}")

    try:
        env = {k: v for k, v in os.environ.items() if not k.startswith("RUST_LOG") and not k.startswith("ZERV_")}
        env.update(TZ="Pacific/Kiritimati", HOME=work, NO_COLOR="1")
        for argv in _ONE_LINE_VECTORS:
            for prefix in _PREFIXES:
                for fmt in ("semver", "pep440"):
                    one(argv, prefix, fmt)
        if tier == "thorough":
            rnd = random.Random(seed * 7919 + 17)
            alphabet = ["v", "V", "-", "_", ".", " ", "\n", "\r", "\t", "ü", "0", "9", "+", "!", "release", "\u2028", "\x0b", "\x0c", "\x85", "\\n", "{{", "%"]
            for _ in range(300):
                prefix = "".join(rnd.choice(alphabet) for _ in range(rnd.randint(0, 5)))
                argv = list(rnd.choice(_ONE_LINE_VECTORS))
                if argv[0] != "render" and rnd.random() < 0.5:
                    argv += [rnd.choice(["--bump-major", "--bump-minor", "--bump-patch", "--bump-post", "--bump-dev", "--bump-epoch"]), str(rnd.choice([0, 1, 7, 4294967295]))]
                one(argv, prefix, rnd.choice(["semver", "pep440"]))
    finally:
        shutil.rmtree(work, ignore_errors=True)
    res["wall_s"] = round(time.time() - t0, 2)
    if classes:
        lines = [l for v in classes.values() for l in v]
        res.update(status="cex", lines=lines[:5], classes={k: v[:5] for k, v in classes.items()})
    else:
        res.update(status="no-cex", lines=[])
    return res


TIER_BOUND = ("6 smart presets x 14 override / bump vectors (pre-release label / number, post, dev, epoch, bumps; clean and dirty / ahead states) through the real binary: "
              "the rendering must be the one the preset gives for the *resulting* state, i.e. equal to re-rendering the emitted object with the same preset "
              "(`--source stdin --schema <preset>`), for semver and pep440")
_TIER_VECTORS = [
    ["1.2.3"], ["1.2.3", "--distance", "2"], ["1.2.3", "--distance", "0", "--no-dirty"],
    ["1.2.3-rc.1"], ["1.2.3-rc.1", "--distance", "3"],
    ["1.2.3", "--pre-release-label", "alpha"], ["1.2.3", "--pre-release-label", "alpha", "--pre-release-num", "3"],
    ["1.2.3", "--bump-pre-release-label", "beta"], ["1.2.3-alpha.1", "--post", "3"], ["1.2.3-alpha.1", "--bump-post"],
    ["1.2.3", "--post", "2"], ["1.2.3", "--bump-major"], ["1.2.3-rc.2", "--bump-patch"], ["1.2.3", "--epoch", "1", "--dev", "4"],
]


def run_tier(tier="quick", seed=0):
    """C06: "the smart presets … choose their tier solely from the dirty, distance, pre-release and post state" — of the version that is rendered."""
    t0 = time.time()
    res = {"family": "cli_tier", "bound": TIER_BOUND, "cases": 0}
    ok, msg = rengine.build_zerv()
    if not ok:
        res.update(status="error", lines=["the zerv binary does not build from the working tree: " + msg[-400:]])
        return res
    zerv = rengine.ZERV
    work = tempfile.mkdtemp(prefix="verif_tier_")
    classes = {}
    try:
        env = {k: v for k, v in os.environ.items() if not k.startswith("RUST_LOG") and not k.startswith("ZERV_")}
        env.update(TZ="Pacific/Kiritimati", HOME=work, NO_COLOR="1")
        for preset in ("standard", "standard-context", "standard-no-context", "calver", "calver-context", "calver-no-context"):
            for vec in _TIER_VECTORS:
                argv = ["version"] + NONE + vec + ["--schema", preset, "--bumped-timestamp", "1710511845", "--bumped-branch", "main", "--bumped-commit-hash", "abcdef1234"]
                rc, obj, _ = _run(zerv, argv + ["--output-format", "zerv"], None, work, env)
                res["cases"] += 1
                if rc != 0:
                    continue
                for fmt in ("semver", "pep440"):
                    rd, direct, _ = _run(zerv, argv + ["--output-format", fmt], None, work, env)
                    rp, again, _ = _run(zerv, ["version", "--source", "stdin", "--schema", preset, "--output-format", fmt], obj, work, env)
                    if rd != rp or direct != again:
                        overrides = any(a.startswith(("--pre-release", "--post", "--dev", "--epoch", "--bump-")) for a in vec)
                        cls = "tier-chosen-before-overrides" if overrides else "tier-differs"
                        classes.setdefault(cls, []).append(
                            f"CEX cli_tier class={cls} `zerv {' '.join(argv)} --output-format {fmt}` prints {direct.decode('utf-8', 'replace').strip()!r}, but the preset "
                            f"{preset!r} applied to the resulting state (the emitted object on stdin) gives {again.decode('utf-8', 'replace').strip()!r}")
    finally:
        shutil.rmtree(work, ignore_errors=True)
    res["wall_s"] = round(time.time() - t0, 2)
    if classes:
        lines = [l for v in classes.values() for l in v]
        res.update(status="cex", lines=lines[:5], classes={k: v[:5] for k, v in classes.items()})
    else:
        res.update(status="no-cex", lines=[])
    return res


FAMILIES = {"cli_tier": run_tier, "cli_one_line": run_one_line, "cli_git_failures": run_git_failures, "cli_template_output": run_template_output, "cli_check_verdict": run_verdict, "cli_discipline": run, "cli_pipe": run_pipe, "cli_bumps": run_bumps}
