"""Run Verus on one generated file and classify every diagnostic."""
import json
import os
import re
import subprocess
import time

VERIFICATION_FAILURES = [
    (re.compile(r"^postcondition not satisfied"), "post"),
    (re.compile(r"^precondition not satisfied"), "pre"),
    (re.compile(r"^invariant not satisfied before loop"), "inv-entry"),
    (re.compile(r"^invariant not satisfied at end of loop body"), "inv-keep"),
    (re.compile(r"^possible arithmetic underflow/overflow"), "overflow"),
    (re.compile(r"^possible division by zero"), "div-zero"),
    (re.compile(r"^assertion failed"), "assert"),
    (re.compile(r"^decreases not satisfied"), "decreases"),
    (re.compile(r"^unreachable|^possible.*unreachable|reached unreached"), "unreachable"),
    (re.compile(r"^loop invariant not satisfied"), "inv"),
    (re.compile(r"^unable to prove post-?condition of closure"), "closure-post"),
    (re.compile(r"^unable to prove pre-?condition of closure|^Call to non-static function fails to satisfy"), "closure-pre"),
    (re.compile(r"^recommendation not met"), None),          # notes only
    (re.compile(r"^possible bit shift underflow/overflow"), "overflow"),
    (re.compile(r"^cannot show invariant holds"), "inv"),
    (re.compile(r"^requires not satisfied"), "pre"),
    (re.compile(r"^possible.*panic|^panic"), "panic"),
    (re.compile(r"^index out of bounds|^possible.*out of bounds"), "bounds"),
]
TOOL_LIMIT = re.compile(r"[Rr]esource limit|rlimit|timed? ?out|solver.*(crash|died)|process exited")

FN_HEADER = re.compile(r"^\s*(?:pub(?:\([a-z]+\))?\s+)?(?:open\s+|closed\s+|broadcast\s+)*(?:spec\s+|proof\s+|exec\s+|const\s+)?fn\s+([A-Za-z_][A-Za-z0-9_]*)")


def enclosing_fn(lines, lineno):
    """nearest function header at or above 1-based lineno"""
    i = min(lineno, len(lines)) - 1
    while i >= 0:
        m = FN_HEADER.match(lines[i])
        if m:
            name = m.group(1)
            if lines[i][:1] in (" ", "\t"):
                k = i - 1
                while k >= 0:
                    if lines[k].startswith("}"):
                        break
                    mi = re.match(r"impl(?:<[^>]*>)?\s+(.*?)\s*\{", lines[k])
                    if mi:
                        hdr = mi.group(1)
                        ty = hdr.split(" for ")[-1].strip()
                        tr = hdr.split(" for ")[0].strip() if " for " in hdr else None
                        # Verus names trait-impl methods Type::method as well
                        return f"{ty}::{name}"
                    k -= 1
            return name
        i -= 1
    return "?"


def _in_proof_fn(lines, lineno):
    """is the requires clause at `lineno` part of a `proof fn` / `axiom fn` header (ghost), as opposed to an assume_specification?"""
    i = lineno - 1
    while i >= 0:
        t = lines[i].strip()
        if "assume_specification" in t:
            return False
        if re.search(r"\b(proof|axiom)\s+fn\b", t):
            return True
        if t.startswith("}") or t == "":
            return False
        i -= 1
    return False


class VerusResult:
    def __init__(self):
        self.ok = False
        self.verified = 0
        self.errors = 0
        self.failures = []     # verification failures: dict(kind, fn, line, message, clause, rendered)
        self.undecided = []    # reasons (strings)
        self.functions = []    # from function-breakdown: dict(function, mode, time_ms, rlimit, success)
        self.smt_ms = 0
        self.total_ms = 0
        self.wall_s = 0.0
        self.cmd = ""
        self.raw_out = ""
        self.raw_err = ""
        self.version = ""


def run_verus(path, seed=0, rlimit=30, threads=4, multiple_errors=5, timeout=900):
    cmd = ["verus", path, "--output-json", "--time-expanded", "--error-format=json",
           "--triggers-mode", "silent", "--rlimit", str(rlimit), "--multiple-errors", str(multiple_errors),
           "--num-threads", str(threads), "--smt-option", f"smt.random_seed={seed}"]
    res = VerusResult()
    res.cmd = " ".join(cmd)
    t0 = time.time()
    try:
        p = subprocess.run(cmd, capture_output=True, text=True, timeout=timeout, cwd=os.path.dirname(path))
    except subprocess.TimeoutExpired:
        res.undecided.append(f"verus timed out after {timeout}s")
        res.wall_s = time.time() - t0
        return res
    res.wall_s = time.time() - t0
    res.raw_out, res.raw_err = p.stdout, p.stderr
    with open(path) as fh:
        lines = fh.read().split("\n")
    # stdout: one JSON document (may be preceded/followed by plain lines)
    js = None
    try:
        start = p.stdout.index("{")
        js = json.loads(p.stdout[start:p.stdout.rindex("}") + 1])
    except Exception:
        js = None
    diags = []
    for l in p.stderr.split("\n"):
        l = l.strip()
        if l.startswith("{") and '"$message_type"' in l:
            try:
                diags.append(json.loads(l))
            except Exception:
                pass
    if js is None:
        res.undecided.append("verus produced no result JSON (front-end failure): " + p.stderr[-1500:])
    else:
        vr = js.get("verification-results", {})
        res.verified = vr.get("verified", 0)
        res.errors = vr.get("errors", 0)
        res.version = js.get("verus", {}).get("version", "")
        if vr.get("encountered-vir-error"):
            res.undecided.append("verus front-end (VIR) error")
        t = js.get("times-ms", {})
        res.total_ms = t.get("total", 0)
        smt = t.get("smt", {})
        res.smt_ms = smt.get("smt-run", 0)
        for mod in smt.get("smt-run-module-times", []):
            for f in mod.get("function-breakdown", []):
                res.functions.append({"function": f.get("function"), "mode": f.get("mode:") or f.get("mode"),
                                      "time_ms": f.get("time"), "rlimit": f.get("rlimit"), "success": f.get("success")})
    for d in diags:
        if d.get("level") != "error":
            continue
        msg = d.get("message", "")
        if msg.startswith("aborting due to"):
            continue
        base = os.path.basename(path)
        own = [s for s in d.get("spans", []) if os.path.basename(s.get("file_name", "")) == base]
        prim = [s for s in own if s.get("is_primary")]
        if not prim and own:
            prim = [own[0]]
        line = prim[0]["line_start"] if prim else 0
        kind = None
        matched = False
        for rx, k in VERIFICATION_FAILURES:
            if rx.search(msg):
                kind, matched = k, True
                break
        if TOOL_LIMIT.search(msg):
            res.undecided.append(f"tool limit: {msg} (line {line})")
            continue
        if not matched:
            res.undecided.append(f"front-end/unsupported: {msg} (line {line}: {lines[line-1].strip() if 0 < line <= len(lines) else ''})")
            continue
        if kind is None:
            continue
        # for `post` the primary span is the failed ensures clause; the body location is secondary.
        clause = ""
        site_line = line
        for s in own:
            lab = (s.get("label") or "")
            txt = " ".join(t["text"].strip() for t in s.get("text", []))
            if "failed this postcondition" in lab or "failed precondition" in lab or "failed this" in lab:
                clause = txt
            if kind == "post" and ("at the end of the function body" in lab or "at this exit" in lab):
                site_line = s["line_start"]
        if kind == "pre":
            # primary = call site; clause = callee's requires
            pass
        fn = enclosing_fn(lines, site_line)
        if kind == "post" and prim:
            fn = enclosing_fn(lines, site_line)
            # the ensures clause is written under the header of the same fn; prefer the header above the clause
            fn2 = enclosing_fn(lines, prim[0]["line_start"])
            if fn2 != "?":
                fn = fn2
        # a contract clause may carry a name in a trailing comment `// [name]`; it becomes part of the obligation id
        cname = ""
        for sp in own:
            lab = (sp.get("label") or "")
            if "failed this postcondition" in lab or "failed precondition" in lab:
                le = sp.get("line_end", 0)
                if 0 < le <= len(lines):
                    mm = re.search(r"//\s*\[([A-Za-z0-9_-]+)\]", lines[le - 1])
                    if mm:
                        cname = mm.group(1)
        if cname:
            kind = f"{kind}[{cname}]"
        # is the violated precondition that of an executable std/dependency function (a potential panic), or of a lemma?
        exec_pre = False
        if kind.startswith("pre"):
            fp = [sp for sp in d.get("spans", []) if "failed precondition" in (sp.get("label") or "")]
            if not fp:
                exec_pre = True            # e.g. built-in index/arith preconditions carry no clause span
            for sp in fp:
                if os.path.basename(sp.get("file_name", "")) != base:
                    exec_pre = True        # clause lives in vstd
                else:
                    ln = sp.get("line_start", 0)
                    # inside an included trusted prelude module?
                    depth = None
                    for k in range(ln - 1, -1, -1):
                        if lines[k].startswith("// <<< include: prelude/"):
                            break
                        if lines[k].startswith("// >>> include: prelude/"):
                            depth = k
                            break
                    if depth is not None and "proof fn" not in lines[ln - 1] and not _in_proof_fn(lines, ln):
                        exec_pre = True
        res.failures.append({"kind": kind, "fn": fn, "line": site_line, "message": msg, "clause": clause[:300], "exec_pre": exec_pre,
                             "src": lines[site_line - 1].strip() if 0 < site_line <= len(lines) else "",
                             "rendered": d.get("rendered", "")})
    res.ok = (js is not None and not res.undecided and not res.failures and res.errors == 0
              and js.get("verification-results", {}).get("success") is True)
    if js is not None and not res.ok and not res.failures and not res.undecided:
        res.undecided.append("verus reported failure without a classified diagnostic: " + p.stderr[-1500:])
    return res
