"""R-engine: solver-discharged language obligations about a regex literal of /repo (DESIGN.md §2.5).

The pattern literal is taken from the repository on every run (`vx regex`), parsed by the same regex-syntax
version the lock file pins, and printed as an SMT-LIB RegLan term.  The specification grammar is a RegLan term
written from the standard (contracts/*_grammar.py).  Each obligation is an emptiness query (expected `unsat`).
A `sat` answer is a concrete string, replayed through the real parser (`zerv check`, built from the working
tree) before it is reported.
"""
import importlib.util
import os
import re
import subprocess
import tempfile
import time

import vxlib

HERE = vxlib.VERIF
REPO = vxlib.REPO
ZERV = os.path.join(REPO, "target", "debug", "zerv")
_build_done = {}


def build_zerv():
    """(ok, message) — builds the real binary from /repo's working tree (cargo does its own locking)."""
    if "r" in _build_done:
        return _build_done["r"]
    env = dict(os.environ, CARGO_NET_OFFLINE="true")
    p = subprocess.run(["cargo", "build", "--offline", "--bin", "zerv", "--quiet"], cwd=REPO, env=env,
                       capture_output=True, text=True)
    ok = p.returncode == 0 and os.path.exists(ZERV)
    _build_done["r"] = (ok, p.stderr[-2000:])
    return _build_done["r"]


def real_accepts(fmt, s):
    """run the real parser through the CLI: (accepted: bool, stdout, stderr)"""
    p = subprocess.run([ZERV, "check", "--format", fmt, "--", s], capture_output=True, text=True, timeout=60, stdin=subprocess.DEVNULL)
    return p.returncode == 0, p.stdout, p.stderr


def smt_unescape(lit):
    s = lit.replace('""', '"')
    return re.sub(r"\\u\{([0-9a-fA-F]+)\}", lambda m: chr(int(m.group(1), 16)), s)


def smt_escape(s):
    out = []
    for ch in s:
        c = ord(ch)
        if 0x20 <= c < 0x7f and ch not in '"\\':
            out.append(ch)
        else:
            out.append("\\u{%x}" % c)
    return '"' + "".join(out) + '"'


SOLVERS = {
    "z3-4.8.12": lambda f, t: ["/usr/bin/z3", f"-T:{t}", f],
    "z3-5.1.0": lambda f, t: ["z3-new", f"-T:{t}", f],
    "cvc5-1.0": lambda f, t: ["cvc5", "--strings-exp", f"--tlimit={t * 1000}", "--produce-models", f],
}


def solve(solver, defs, asserts, timeout, seed=0):
    """-> (status 'sat'|'unsat'|'unknown', model string or None, ms)"""
    body = ["(set-logic ALL)" if solver.startswith("cvc5") else "(set-option :smt.random_seed %d)" % seed,
            "(set-option :produce-models true)"] + defs + ["(declare-const s String)"] + \
           [f"(assert {a})" for a in asserts] + ["(check-sat)", "(get-value (s))"]
    with tempfile.NamedTemporaryFile("w", suffix=".smt2", delete=False) as fh:
        fh.write("\n".join(body) + "\n")
        path = fh.name
    t0 = time.time()
    try:
        p = subprocess.run(SOLVERS[solver](path, timeout), capture_output=True, text=True, timeout=timeout + 20)
        out = p.stdout
    except subprocess.TimeoutExpired:
        out = "timeout"
    finally:
        os.unlink(path)
    ms = int((time.time() - t0) * 1000)
    first = out.strip().split("\n")[0].strip() if out.strip() else ""
    if first == "unsat":
        return "unsat", None, ms
    if first == "sat":
        m = re.search(r'\(\(s "((?:[^"]|"")*)"\)\)', out)
        return "sat", (smt_unescape(m.group(1)) if m else None), ms
    return "unknown", None, ms


def load_grammar(path):
    spec = importlib.util.spec_from_file_location("grammar", os.path.join(HERE, path))
    mod = importlib.util.module_from_spec(spec)
    spec.loader.exec_module(mod)
    return mod


def run_task(task, tier, seed):
    t0 = time.time()
    name = task["name"]
    res = {"task": name, "obligations": [], "violations": [], "undecided": [], "trusted": {}, "samples": [],
           "cmd": "", "backend": "", "smt_ms": 0}
    try:
        r = vxlib.run_vx("regex", {"repo": REPO, "file": task["file"], "static": task["static"]})
    except vxlib.Undecided as e:
        res["undecided"].append(str(e))
        return res
    if r.get("error"):
        res["undecided"].append(r["error"])
        return res
    g = load_grammar(task["grammar"])
    defs = [f"(define-fun code () RegLan {r['reglan']})",
            f"(define-fun spec () RegLan {g.SPEC})",
            f"(define-fun parses_ok () RegLan {g.PARSES_OK})",
            "(define-fun ascii () RegLan (re.* (re.range \"\\u{0}\" \"\\u{7f}\")))"]
    fmt = task["format"]
    ok, msg = build_zerv()
    if not ok:
        res["undecided"].append("cannot build the zerv binary for replay: " + msg)
        return res
    timeout = 60 if tier == "quick" else 300
    # primary solver decides; the others are cross-checks (their `unknown` is tolerated, their `sat` is not)
    solvers = ["z3-5.1.0"] if tier == "quick" else ["z3-5.1.0", "z3-4.8.12", "cvc5-1.0"]
    res["backend"] = " + ".join(solvers)
    res["cmd"] = f"vx regex {task['static']} | " + " ; ".join(" ".join(SOLVERS[s]("<query>.smt2", timeout)) for s in solvers)
    res["trusted"] = {
        "regex-crate-matches-hir": "the `regex` crate accepts exactly the language of the regex-syntax 0.8.9 HIR of the pattern",
        "hir-to-reglan": "vx's HIR→RegLan printer is faithful (guarded each run by membership samples replayed on the real parser)",
        "smt-string-alphabet": "strings range over code points ≤ U+2FFFF (SMT-LIB alphabet); higher planes clipped from classes",
        name + "-grammar": g.SOURCE,
    }
    obligations = [
        ("accept-sound", ["(str.in_re s code)", "(str.in_re s parses_ok)", "(not (str.in_re s spec))"], True,
         "every string the real parser accepts is in the standard's grammar"),
        ("accept-complete", ["(str.in_re s spec)", "(not (str.in_re s code))"], False,
         "every string of the standard's grammar matches the real pattern"),
        ("ascii-only", ["(str.in_re s code)", "(str.in_re s parses_ok)", "(not (str.in_re s ascii))"], True,
         "no accepted string contains a non-ASCII character"),
    ]
    for oname, asserts, witness_should_be_accepted, text in obligations:
        oid = f"{name}::{oname}"
        statuses = {}
        witness = None
        for sv in solvers:
            st, model, ms = solve(sv, defs, asserts, timeout if sv == solvers[0] else 20, seed)
            res["smt_ms"] += ms
            statuses[sv] = (st, ms)
            if st == "sat" and witness is None:
                # look for a witness the real parser confirms; block refuted ones
                blocked = []
                cur = model
                for _ in range(6):
                    if cur is None:
                        break
                    acc, so, se = real_accepts(fmt, cur)
                    if acc == witness_should_be_accepted:
                        witness = (cur, acc, so, se, sv)
                        break
                    blocked.append(cur)
                    st2, cur, ms2 = solve(sv, defs, asserts + [f"(not (= s {smt_escape(b)}))" for b in blocked], timeout, seed)
                    res["smt_ms"] += ms2
                    if st2 != "sat":
                        cur = None
                if witness is None:
                    res["undecided"].append(f"{oid}: solver {sv} says sat but no model reproduces on the real parser "
                                            f"(refuted: {blocked!r}) — translation or parses_ok imprecise")
        sts = {v[0] for v in statuses.values()}
        discharged = statuses[solvers[0]][0] == "unsat" and "sat" not in sts
        res["obligations"].append({"id": oid, "discharged": discharged, "solvers": {k: v[0] for k, v in statuses.items()},
                                   "ms": {k: v[1] for k, v in statuses.items()}})
        res["samples"].append({"obligation": oid, "text": text, "query": " ∧ ".join(asserts), "expected": "unsat",
                               "backend": res["backend"], "result": {k: v[0] for k, v in statuses.items()}})
        if witness:
            s, acc, so, se, sv = witness
            verdict = "accepted" if acc else "rejected"
            body = (f"property: {task['property']}\nfailed obligation: {oid}\nmeaning: {text}\n"
                    f"solver: {sv} answered sat\nwitness (python repr): {s!r}\n"
                    f"replayed on the real code: {ZERV} check --format {fmt} -- <witness>  => {verdict}\n"
                    f"stdout: {so!r}\nstderr: {se!r}\n"
                    f"pattern literal from {task['file']}::{task['static']}:\n{r['pattern']}\n"
                    f"replay-cmd: {ZERV} check --format {fmt} -- {shell_quote(s)}; test $? -eq {1 if acc else 0}\n")
            res["violations"].append({"obligation": oid, "input": s, "replay_text": body})
        elif statuses[solvers[0]][0] == "unknown" and "sat" not in sts:
            res["undecided"].append(f"{oid}: solver answered unknown/timeout {statuses}")
    # ---- group structure (only when the grammar file states one): the skeleton of the literal down to its named groups, compared as text,
    # and the language of each listed group, decided by the solver. These ground the trusted axiom about `captures(..).name(..)` that the
    # Verus unit uses for `from_str` (TRUSTED[...-regex-groups]); a change of the literal that moves a group boundary or changes what a
    # group may hold fails here even if the language of the whole pattern stays the same.
    if hasattr(g, "SKELETON"):
        oid = f"{name}::skeleton"
        same = (r.get("skeleton") == g.SKELETON) and not r.get("skeleton_error")
        res["obligations"].append({"id": oid, "discharged": same, "solvers": {"vx-structural-comparison": "equal" if same else "different"}, "ms": {}})
        res["samples"].append({"obligation": oid, "text": "the pattern literal has the group structure the from_str contract relies on",
                               "query": f"skeleton(literal) == {g.SKELETON!r}", "expected": "equal", "backend": "vx (regex-syntax HIR walk)",
                               "result": {"skeleton": r.get("skeleton"), "error": r.get("skeleton_error")}})
        if not same:
            body = (f"property: {task['property']}\nfailed obligation: {oid}\nmeaning: the group structure of the pattern literal differs from the one the "
                    f"contract of from_str relies on\nexpected: {g.SKELETON}\nfound:    {r.get('skeleton')} {r.get('skeleton_error')}\n"
                    f"pattern literal from {task['file']}::{task['static']}:\n{r['pattern']}\n"
                    f"no counterexample engine for a structural obligation: no-failing-input-found\n")
            res["violations"].append({"obligation": oid, "input": None, "replay_text": body})
        for gname, glang in sorted(getattr(g, "GROUPS", {}).items()):
            oid = f"{name}::group-language[{gname}]"
            code_lang = r.get("groups", {}).get(gname)
            if code_lang is None:
                res["undecided"].append(f"{oid}: lost anchor: the pattern has no group named {gname}")
                continue
            gdefs = [f"(define-fun gcode () RegLan {code_lang})", f"(define-fun gspec () RegLan {glang})"]
            asserts = ["(str.in_re s (re.union (re.diff gcode gspec) (re.diff gspec gcode)))"]
            statuses = {}
            for sv in solvers:
                st, model, ms = solve(sv, gdefs, asserts, timeout if sv == solvers[0] else 20, seed)
                res["smt_ms"] += ms
                statuses[sv] = (st, ms, model)
            sts = {v[0] for v in statuses.values()}
            discharged = statuses[solvers[0]][0] == "unsat" and "sat" not in sts
            res["obligations"].append({"id": oid, "discharged": discharged, "solvers": {k: v[0] for k, v in statuses.items()},
                                       "ms": {k: v[1] for k, v in statuses.items()}})
            res["samples"].append({"obligation": oid, "text": f"group `{gname}` of the literal holds exactly the texts the contract says",
                                   "query": asserts[0], "expected": "unsat", "backend": res["backend"], "result": {k: v[0] for k, v in statuses.items()}})
            if "sat" in sts:
                model = next(v[2] for v in statuses.values() if v[0] == "sat")
                body = (f"property: {task['property']}\nfailed obligation: {oid}\nmeaning: group `{gname}` of the pattern literal does not hold exactly the "
                        f"texts the contract of from_str relies on\nsolver witness (a text in one language and not in the other): {model!r}\n"
                        f"pattern literal from {task['file']}::{task['static']}:\n{r['pattern']}\n"
                        f"the witness is a group text, not a whole version: no-failing-input-found\n")
                res["violations"].append({"obligation": oid, "input": None, "replay_text": body})
            elif not discharged:
                res["undecided"].append(f"{oid}: solver answered unknown/timeout {statuses}")
        res["trusted"][name + "-groups"] = ("regex crate: for an anchored match, `captures.name(g)` is the text group g matched and the groups with the "
                                            "literals between them make up the whole text; the decomposition is unique for this skeleton (" + getattr(g, "UNIQUE_WHY", "") + ")")
    # ---- translation guard: members and non-members sampled from the solver must agree with the real parser
    checked, disagreements = 0, []
    probes = []
    for n in (5, 6, 8, 11, 15):
        probes.append((["(str.in_re s code)", "(str.in_re s parses_ok)", f"(= (str.len s) {n})"], True))
        probes.append((["(not (str.in_re s code))", "(str.in_re s (re.* (re.union (re.range \"0\" \"9\") (re.range \"a\" \"c\") "
                        "(str.to_re \".\") (str.to_re \"-\") (str.to_re \"+\") (str.to_re \"!\"))))", f"(= (str.len s) {n})"], False))
    for asserts, member in probes[: (6 if tier == "quick" else 10)]:
        st, model, ms = solve("z3-5.1.0", defs, asserts, 30, seed)
        if st != "sat" or model is None:
            continue
        acc, so, se = real_accepts(fmt, model)
        checked += 1
        # a member of code∩parses_ok may still be rejected for machine-range reasons only when a number overflows: not sampled at these lengths
        if acc != member:
            disagreements.append((model, member, acc))
    if disagreements:
        res["undecided"].append(f"translation guard: real parser disagrees with RegLan membership on {disagreements!r}")
    res["summary"] = {"task": name, "pattern_from": f"{task['file']}::{task['static']}", "obligations": [o["id"] for o in res["obligations"]],
                      "membership_samples_replayed": checked, "disagreements": len(disagreements),
                      "clipped_above_2ffff": r.get("clipped_above_2ffff"), "wall_s": round(time.time() - t0, 2)}
    return res


def shell_quote(s):
    return "'" + s.replace("'", "'\\''") + "'"
