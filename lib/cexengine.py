"""Bounded counterexample search on the real crate (/verif/cex, path dependency on /repo; rebuilt from the working tree).

Not a deciding step for `proof`-level obligations: it (a) supplies a concrete failing input for the replay file after the
verifier refused an obligation, (b) settles the case where contract anchors were lost (refactored function) — only a
concrete counterexample reproduced on the real code turns that into a violation — and (c) is a *bounded* stand-in for
the functions that are only assumed contracts in the Verus units (labelled bounded in the evidence)."""
import os
import subprocess
import time

import vxlib

CEX_DIR = os.path.join(vxlib.VERIF, "cex")
BIN = os.path.join(CEX_DIR, "target", "debug", "cex")
_built = {}

BOUNDS = {
    "semver_order": "570 versions (5 cores x pre-release lists up to length 3 over 10 identifiers, 3 build variants), all ordered pairs",
    "pep440_order": "~1176 versions (2 epochs x 7 releases x 6 pre x post/dev {absent, implicit, 0, 2} x 6 locals, thinned), all ordered pairs",
    "sanitize": "all strings up to length 5 over {a,B,0,1,'.','-','_','é',' '} x separator {.,-,_} x lowercase x keep_zeros x max_length {None,1,3,6}; integer sanitiser on the same strings; plus 12 long/unusual inputs (numbers wider than u64/u128, fullwidth digits)",
    "branch_rules": "7 patterns x 36 branch names incl. non-ASCII (multi-byte characters straddling every prefix length), signed, overflowing and zero-padded segments; first-match lookup, resolve_for_branch and flag-over-rule precedence on 5 rule sets x 9 branches x 6 flag sets (every subset of label / number / mode flags that matters)",
    "bump_levels": "default precedence order; 3x3x3x2x2x2 variable assignments x 7 levels x override {None,0,7} x bump {None,0,2}; u64::MAX overflow probe; reset_lower_precedence_components under 4 precedence orders (default, reversed, shuffled, partial) x 8 levels",
    "presets_tier": "6 smart presets x dirty {None,false,true} x distance {None,0,3} x pre x post x epoch; the 16 fixed presets against their documented component lists (also exercises every constructor's unwrap); the 8 CalVer presets rendered for 3 (commit time, tag time) pairs against the UTC date",
    "timestamp": "16 documented patterns x 7 instants (1970..2199) against chrono called directly; and every 3rd day (thorough: every day) from 1970-01-01 to 2199-12-31 at its first and last second, all 16 patterns with their widths, against a calendar algorithm that shares nothing with chrono (days -> civil date; Monday-based week from day of year and weekday)",
    "schema_validate": "~5000 schemas from a pool of 13 components (lists up to length 2 per section, plus all orders of major/minor/patch with and without literals in between)",
    "semver_parts": "5 SemVer and 5 PEP 440 sample versions",
    "pep440_display": "5 SemVer and 5 PEP 440 sample versions",
    "resolve_barrier": "25 texts (incl. 2-, 3- and 4-byte characters straddling the short-hash cut at every offset, non-ASCII, fullwidth, whitespace) x 19 variables x 2 presets",
    "sanitize_uint_claim": "see sanitize",
    "semver_from_zerv": "valid schemas from 11 core (incl. literals that only sanitise to digits, signed or padded numbers, custom variables) x 5 extra-core x 3 build lists mixing var / str / uint components, incl. values that split into several identifiers, sanitise to nothing, or overflow u32) x 324 variable assignments; SemVer::from(Zerv).to_string() against an oracle written from the statement",
    "pep440_from_zerv": "the same 119 schemas x 324 assignments; PEP440::from(Zerv).to_string() against an oracle written from the statement",
    "flow_rules": "3 base tags (final, pre-release, pre-release+post) x 11 branch names (default GitFlow rules; numeric segments, empty segments, non-ASCII) x distance {0,3} x dirty x post-mode {default, tag, commit} x label/number flags x hash lengths {1,5,10}: 1716 runs of the real flow pipeline (source none, output zerv) compared with the statement's rules written as arithmetic; branch hash: digit count, determinism",
    "pep440_spellings": "10 versions in 4-12 spellings each (case, separators, alternative labels, leading zeros, v prefix, trailing zero release numbers, explicit epoch 0, implicit numbers): every spelling accepted, all pairs within a group compare Equal and ==, representatives of different groups differ",
    "bump_sequence": "3 start versions x all 28 pairs of levels (7 numeric levels + pre-release label) x 9 override/bump combinations x {no, bump, override} core index operation = 2268 argument sets: apply_component_processing against the real per-level handlers applied by hand in the documented order",
    "convert_roundtrip": "about 21000 canonical SemVer shapes X.Y.Z[-[epoch.E.][label.N.][post.P.][dev.D]][+ids] (4 cores incl. 2^32-1, E in {-, 1, 2^32-1}, 3 labels x 4 numbers, post / dev in {-, 0, n, 2^32-1}, 5 build texts) through SemVer -> Zerv -> SemVer / PEP 440 -> Zerv -> SemVer with the real From impls and parsers, against the forms written in the statement; about 7000 accepted PEP 440 spellings (1-5 release numbers, every label spelling, implicit numbers, local parts incl. numbers above u32::MAX): fixed point through Zerv, SemVer rendering accepted and a fixed point, back to an equal version for at most three release numbers; 7 SemVer inputs with a number above 2^32-1 for the no-silent-change clause",
    "ron_roundtrip": "38 schemas (16 fixed presets, custom schemas with empty / one-level / reversed / full precedence orders, 14 schemas with awkward literal texts) x 18 variable sets (quotes, backslashes, newlines, tabs, Unicode, RON-looking text; custom JSON objects, arrays, null, strings) = 684 objects: Display -> from_str equals the object, re-emission byte-identical, SemVer / PEP 440 rendering equal through the pipe",
    "semver_roundtrip": "4 cores x 308 pre-release lists (<=2 identifiers from 17, incl. leading-zero alphanumerics, hyphens, numerics around u64::MAX) x 12 build lists x {'', 'v'}: parse, print, compare with the input; 3 cores above u64::MAX; 22 strings outside the grammar must be rejected",
    "pep440_roundtrip": "6 epochs x 6 releases x ~110 pre-release spellings x 9 post x 5 dev x 8 local spellings x {'', v, V}, thinned to ~155k strings, each with its normal form computed from the fields (not by parsing): accepted, prints the normal form, normal form re-parses to itself and compares equal; 20 strings outside the grammar must be rejected",
    "tag_max_semver": "all pairs and a third of the triples over 20 tag names (spellings, pre-releases, build metadata, a non-version): filter_only_valid_tags keeps exactly the parsable ones; find_max_version_tag returns a valid tag that no other valid tag exceeds under the reference precedence",
    "tag_max_pep440": "all pairs and a third of the triples over 21 tag names (spellings, epochs, pre/post/dev, locals, a non-version): as tag_max_semver with the PEP 440 reference key",
    "template_functions": "prefix / hash / hash_int / prefix_if / sanitize on 16 values (incl. multi-byte, whitespace-only and whitespace-padded) x lengths {0,1,2,3,7,30}; format_timestamp on 4 instants x 10 formats incl. invalid ones; sanitize with every combination of separator {absent, '.', '-'} x lowercase {absent, true, false} x keep_zeros {absent, true, false} x max_length {absent, 6} on 4 values against the custom sanitiser of those arguments, and each of them together with a preset (to be refused) — rendered through the real Tera engine",
}


THOROUGH = {
    "convert_roundtrip": "the same shapes with 7 numbers per field (about 80000 cases) and every combination of the PEP 440 spellings",
    "semver_order": "600 random versions (numbers up to u64::MAX, identifier lists up to length 4 over [0-9a-zA-Z-]), 60000 random pairs/triples: reference precedence, antisymmetry, transitivity, == consistency",
    "pep440_order": "600 random versions (epoch, 1-4 release numbers, pre/post/dev with and without numbers, locals up to 3 segments), 60000 random pairs/triples: reference key, antisymmetry, transitivity, == consistency",
    "sanitize": "120000 random texts up to length 24 over ASCII, separators, whitespace and non-ASCII letters/digits/case-folding look-alikes under random settings",
    "sanitize_uint_claim": "see sanitize",
    "semver_roundtrip": "60000 random strings generated from the SemVer grammar (numbers of any width, identifiers up to 6 characters, lists up to 4)",
    "semver_from_zerv": "76 more random component lists per section (up to 6 / 5 / 4 components) x 324 assignments, about 2.4 million (schema, vars) pairs",
    "pep440_from_zerv": "as semver_from_zerv",
}


def build():
    if "r" in _built:
        return _built["r"]
    env = dict(os.environ, CARGO_NET_OFFLINE="true")
    lock = os.path.join(CEX_DIR, "Cargo.lock")
    try:
        # keep the lock file in step with the repository's (offline resolution)
        with open(os.path.join(vxlib.REPO, "Cargo.lock")) as a:
            want = a.read()
        if not os.path.exists(lock):
            with open(lock, "w") as b:
                b.write(want)
    except OSError:
        pass
    t0 = time.time()
    p = subprocess.run(["cargo", "build", "--offline", "--quiet"], cwd=CEX_DIR, env=env, capture_output=True, text=True)
    ok = p.returncode == 0 and os.path.exists(BIN)
    _built["r"] = (ok, p.stderr[-1500:], round(time.time() - t0, 1))
    return _built["r"]


def run(family, timeout=900, tier="quick", seed=0):
    """-> dict(family, status 'no-cex'|'cex'|'error', lines[], cases, bound, wall_s)"""
    ok, err, bt = build()
    res = {"family": family, "bound": BOUNDS.get(family, "") + (" — thorough tier: plus the family's seeded random exploration (" + THOROUGH.get(family, "none for this family") + f"; seed {seed})" if tier == "thorough" else ""), "build_s": bt}
    if not ok:
        res.update(status="error", lines=["cex crate does not build against the working tree: " + err])
        return res
    t0 = time.time()
    try:
        argv = [BIN, family] + (["thorough", str(seed)] if tier == "thorough" else [])
        # a non-UTC zone and a non-C locale: any dependence of the real code on local time or locale shows up as a
        # disagreement with the UTC / ASCII oracles of the families
        env = dict(os.environ, TZ="Pacific/Kiritimati", LC_ALL="tr_TR.UTF-8", LANG="tr_TR.UTF-8")
        p = subprocess.run(argv, capture_output=True, text=True, timeout=timeout, stdin=subprocess.DEVNULL, env=env)
    except subprocess.TimeoutExpired:
        res.update(status="error", lines=["timeout"])
        return res
    res["wall_s"] = round(time.time() - t0, 2)
    lines = [l for l in p.stdout.split("\n") if l.startswith("CEX ")]
    cases = 0
    for l in p.stdout.split("\n"):
        if l.startswith("NO-CEX") and "cases=" in l:
            cases = int(l.split("cases=")[1])
        if l.startswith("CEX-COUNT"):
            cases = int(l.split(" of ")[1].split()[0])
    res["cases"] = cases
    if p.returncode == 0 and not lines:
        res.update(status="no-cex", lines=[])
    elif lines:
        # a line may carry `class=<name>`: the obligation it is reported under (families that are not tied to a Verus unit)
        classes = {}
        for l in lines:
            parts = l.split(" ", 3)
            cls = parts[2][6:] if len(parts) > 2 and parts[2].startswith("class=") else "bounded-agreement"
            classes.setdefault(cls, []).append(l)
        res.update(status="cex", lines=lines[:5], classes={k: v[:5] for k, v in classes.items()})
    else:
        res.update(status="error", lines=[(p.stdout + p.stderr)[-800:]])
    return res
