"""Unit templates (contracts/*.vrs) -> generated single-file Verus input.

A template is Verus text (spec functions, lemmas, trusted prelude includes)
with `//@` directive blocks.  Each `//@ extract` block is replaced by the text
`vx extract` pulls out of /repo *on this run*; the ghost text of the block
(requires / ensures / invariants / closure contracts / proof blocks) is
spliced at the markers vx leaves.  Nothing executable is written here.
"""
import json
import os
import re
import subprocess

VERIF = os.path.dirname(os.path.dirname(os.path.abspath(__file__)))
REPO = os.environ.get("VERIF_REPO", "/repo")
VX = os.path.join(VERIF, "vx", "target", "release", "vx")

FORBIDDEN_IN_GHOST = re.compile(r"\b(assume|admit)\s*\(|external_body|assume_specification|\baxiom\b")


class Undecided(Exception):
    """lost anchor / unsupported construct / tool limit: never an alarm"""


class FnSpec:
    def __init__(self, name):
        self.name = name
        # semantics-preserving rewrites are on by default, so that a harmless-looking edit that introduces such a construct
        # is still verified (and fails its contract) instead of making the unit undecided; `rules` overrides
        self.rules = ["E4", "E5", "E9", "E10", "E11", "E12", "E13", "E15"]
        self.ret = None
        self.spec = []          # requires/ensures/decreases lines
        self.loops = {}         # k -> {"iter": str|None, "lines": [...]}
        self.closures = {}      # k -> {"params": str|None, "ret": str, "lines": [...]}
        self.proofs = []        # {"at":..., "id":..., "lines":[...]}
        self.mutants = []       # {"name":..., "pat":..., "repl":...}
        self.expect = {}
        self.no_canary = False
        self.assumed = None     # (id, reason): body dropped, contract assumed


class Extract:
    def __init__(self, file, kind, name):
        self.file = file
        self.kind = kind        # struct enum const static type fn impl
        self.name = name        # ident or impl header
        self.opts = {}
        self.fns = []
        self.lineno = 0


def _kv(rest):
    """parse key=value / key="quoted value" options"""
    out = {}
    for m in re.finditer(r'(\w+)=("([^"]*)"|\S*)', rest):
        out[m.group(1)] = m.group(3) if m.group(3) is not None else m.group(2)
    return out


def parse_template(path):
    """-> list of ('text', line) | ('extract', Extract)"""
    parts = []
    cur = None          # Extract being filled
    curfn = None
    sink = None         # list receiving `//@ |` payload lines
    with open(path) as fh:
        lines = fh.read().split("\n")
    for ln, line in enumerate(lines, 1):
        m = re.match(r"\s*//@ ?(.*)$", line)
        if not m:
            if cur is not None and line.strip():
                raise Undecided(f"bad template {path}:{ln}: plain text inside an extract block")
            if cur is None:
                parts.append(("text", line))
            continue
        d = m.group(1).rstrip()
        if d.startswith("|"):
            if sink is None:
                raise Undecided(f"bad template {path}:{ln}: payload without a section")
            sink.append(d[1:][1:] if d[1:].startswith(" ") else d[1:])
            continue
        if d.startswith("#") or d == "":
            continue
        w = d.split()
        if w[0] == "include":
            if cur is not None:
                raise Undecided(f"bad template {path}:{ln}: include inside extract")
            parts.append(("text", f"// >>> include: {w[1]}"))
            with open(os.path.join(VERIF, w[1])) as inc:
                for il in inc.read().rstrip("\n").split("\n"):
                    parts.append(("text", il))
            parts.append(("text", f"// <<< include: {w[1]}"))
            continue
        if w[0] == "extract":
            if cur is not None:
                raise Undecided(f"bad template {path}:{ln}: nested extract")
            file, kind = w[1], w[2]
            rest = d.split(None, 3)[3]
            if kind == "impl":
                mm = re.match(r'"([^"]+)"\s*(.*)$', rest)
                name, optrest = mm.group(1), mm.group(2)
            else:
                name, _, optrest = rest.partition(" ")
            ex = Extract(file, kind, name)
            ex.opts = _kv(optrest)
            ex.lineno = ln
            if kind in ("fn", "impl"):
                cur = ex
                sink = None
                if kind == "fn":
                    curfn = FnSpec(name)
                    cur.fns.append(curfn)
            else:
                parts.append(("extract", ex))
            continue
        if cur is None:
            raise Undecided(f"bad template {path}:{ln}: directive `{d}` outside an extract block")
        if w[0] == "end":
            parts.append(("extract", cur))
            cur = curfn = sink = None
        elif w[0] == "fn":
            curfn = FnSpec(w[1])
            cur.fns.append(curfn)
            sink = None
        elif w[0] == "rules":
            curfn.rules = w[1:]
        elif w[0] == "rules+":
            curfn.rules = curfn.rules + w[1:]
        elif w[0] == "ret":
            curfn.ret = w[1]
        elif w[0] == "expect":
            curfn.expect = {k: int(v) for k, v in _kv(d).items()}
        elif w[0] == "no_canary":
            curfn.no_canary = True
        elif w[0] == "assumed":
            mm = re.match(r"assumed\s+([A-Za-z0-9_.-]+):?\s*(.*)$", d)
            curfn.assumed = (mm.group(1), mm.group(2))
            curfn.no_canary = True
        elif w[0] == "spec_include":
            with open(os.path.join(VERIF, w[1])) as inc:
                curfn.spec += inc.read().rstrip("\n").split("\n")
            sink = None
        elif w[0].rstrip(":") == "spec":
            sink = curfn.spec
        elif w[0] == "loop":
            k = int(w[1].rstrip(":"))
            o = _kv(d.rstrip(":"))
            curfn.loops[k] = {"iter": o.get("iter"), "lines": []}
            sink = curfn.loops[k]["lines"]
        elif w[0] == "closure":
            k = -1 if w[1].rstrip(":") == "*" else int(w[1].rstrip(":"))
            o = _kv(d.rstrip(":"))
            curfn.closures[k] = {"params": o.get("params"), "ret": o.get("ret"), "lines": []}
            sink = curfn.closures[k]["lines"]
        elif w[0] in ("proof", "ghost"):
            at = d.split(None, 1)[1].rstrip(":").strip()
            p = {"at": at, "id": str(len(curfn.proofs)), "lines": [], "raw": w[0] == "ghost"}
            curfn.proofs.append(p)
            sink = p["lines"]
        elif w[0] == "mutant":
            mm = re.match(r"mutant\s+(\S+)\s+s(.)(.*)\2(.*)\2\s*$", d)
            if not mm:
                raise Undecided(f"bad template {path}:{ln}: mutant syntax")
            curfn.mutants.append({"name": mm.group(1), "pat": mm.group(3), "repl": mm.group(4)})
        else:
            raise Undecided(f"bad template {path}:{ln}: unknown directive `{w[0]}`")
    if cur is not None:
        raise Undecided(f"bad template {path}: unterminated extract block at line {cur.lineno}")
    return parts


def _plan_item(idx, ex):
    item = {"id": str(idx), "file": ex.file, "kind": ex.kind}
    if ex.kind == "impl":
        item["impl"] = ex.name
    else:
        item["name"] = ex.name
    if "derive" in ex.opts:
        item["derive"] = [x for x in ex.opts["derive"].split(",") if x]
    if "mod" in ex.opts:
        item["mod_path"] = ex.opts["mod"].split("::")
    if "as_trait" in ex.opts:
        item["as_trait"] = ex.opts["as_trait"]
    if "subst" in ex.opts:
        item["type_subst"] = dict(p.split("=>") for p in ex.opts["subst"].split(";") if p)
    fns = []
    for f in ex.fns:
        p = {"name": f.name, "rules": f.rules, "contract": True, "assumed": bool(f.assumed)}
        if f.ret:
            p["ret"] = f.ret
        p["iters"] = {str(k): v["iter"] for k, v in f.loops.items() if v["iter"]}
        p["closures"] = {str(k): {"params": v["params"]} for k, v in f.closures.items() if k >= 0}
        if -1 in f.closures:
            p["closure_default"] = {"params": f.closures[-1]["params"]}
        p["proofs"] = [{"at": q["at"], "id": q["id"]} for q in f.proofs]
        if "loops" in f.expect:
            p["expect_loops"] = f.expect["loops"]
        if "closures" in f.expect:
            p["expect_closures"] = f.expect["closures"]
        fns.append(p)
    item["fns"] = fns
    return item


def run_vx(cmd, plan):
    if not os.path.exists(VX):
        raise Undecided(f"vx binary missing ({VX}); run MANIFEST.setup_cmd")
    r = subprocess.run([VX, cmd], input=json.dumps(plan), capture_output=True, text=True)
    if r.returncode != 0:
        raise Undecided(f"vx {cmd} failed: {r.stderr[-2000:]}")
    return json.loads(r.stdout)


def _check_ghost(lines, where):
    for l in lines:
        if FORBIDDEN_IN_GHOST.search(l):
            raise Undecided(f"contract text for {where} contains assume/admit/external_body — refused (E7)")


def _splice_fn(text, f, info, canary):
    j = info["j"]
    where = f.name
    _check_ghost(f.spec, where)
    if f.ret:
        text = text.replace(f"-> __VX_F{j}_RET__", f"-> ({f.ret}: {info['ret_ty']})")
    spec = "\n".join("    " + l for l in f.spec)
    if f.assumed:
        hdr = re.compile(r"^([ \t]*)((?:pub(?:\([a-z]+\))?\s+)?fn\s+%s\b)" % re.escape(f.name), re.M)
        if len(hdr.findall(text)) != 1:
            raise Undecided(f"internal: header of assumed fn {f.name} not found once")
        text = hdr.sub(lambda m: f"{m.group(1)}// ASSUMED[{f.assumed[0]}]: {f.assumed[1]}\n{m.group(1)}#[verifier::external_body]\n{m.group(1)}{m.group(2)}", text)
    can = f" assert(false); /*canary:{f.name}*/" if (canary and not f.no_canary) else ""
    pat = re.compile(r"\{\s*__VX_F%d_FN__;" % j)
    if len(pat.findall(text)) != 1:
        raise Undecided(f"internal: FN marker of {f.name} not found once")
    text = pat.sub(lambda m: ("\n" + spec + "\n{" + can) if spec.strip() else "{" + can, text)
    for k in range(info["n_loops"]):
        ls = f.loops.get(k)
        can = f" assert(false); /*canary:{f.name}:loop{k}*/" if (canary and not f.no_canary) else ""
        if ls is None:
            pat = re.compile(r"\{\s*__VX_F%d_LOOP_%d__;" % (j, k))
            text, n = pat.subn("{" + can, text)
        else:
            _check_ghost(ls["lines"], where)
            inv = "\n".join("        " + l for l in ls["lines"])
            if ls["iter"]:
                pat = re.compile(r"__vx_f%d_iter\(\s*(\w+),\s*(.*?),?\s*\)\s*\{\s*__VX_F%d_LOOP_%d__;" % (j, j, k), re.S)
                text, n = pat.subn(lambda m: f"{m.group(1)}: {m.group(2)}\n{inv}\n    {{" + can, text)
            else:
                pat = re.compile(r"\{\s*__VX_F%d_LOOP_%d__;" % (j, k))
                text, n = pat.subn(lambda m: f"\n{inv}\n    {{" + can, text)
        if n != 1:
            raise Undecided(f"internal: LOOP marker {k} of {f.name} matched {n} times")
    for k in f.loops:
        if k >= info["n_loops"]:
            raise Undecided(f"lost anchor: {f.name} loop {k}")
    closures = {k: v for k, v in f.closures.items() if k >= 0}
    if -1 in f.closures:
        for k in range(info["n_closures"]):
            closures.setdefault(k, f.closures[-1])
    for k, cs in closures.items():
        _check_ghost(cs["lines"], where)
        ens = "\n".join("            " + l for l in cs["lines"])
        pat = re.compile(r"->\s*__VX_F%d_CRET_%d__\s*\{" % (j, k))
        text, n = pat.subn(lambda m: f"-> {cs['ret']}\n{ens}\n        {{", text)
        if n != 1:
            raise Undecided(f"internal: closure marker {k} of {f.name} matched {n} times")
    for p in f.proofs:
        _check_ghost(p["lines"], where)
        body = "\n".join("        " + l for l in p["lines"])
        pat = re.compile(r"__VX_F%d_PROOF_%s__;" % (j, p["id"]))
        if p.get("raw"):
            # ghost snapshots: only `let ghost x = <spec expr>;` declarations are accepted outside proof blocks
            for l in p["lines"]:
                if l.strip() and not re.match(r"\s*let ghost [A-Za-z_][A-Za-z0-9_]*(\s*:\s*[^=]+)?\s*=\s*[^;]*;\s*$", l):
                    raise Undecided(f"contract text for {where}: `ghost` sections may only hold `let ghost x = …;` lines (E7)")
            text, n = pat.subn(lambda m: body.strip(), text)
        else:
            text, n = pat.subn(lambda m: "proof {\n" + body + "\n    }", text)
        if n != 1:
            raise Undecided(f"internal: proof marker {p['at']} of {f.name} matched {n} times")
    return text


class Generated:
    def __init__(self):
        self.text = ""
        self.canary_text = ""
        self.functions = []     # dicts: name, file, impl, hash_before, hash_after, rules_applied, spec, calls, ...
        self.items = []         # data items extracted
        self.mutants = []       # (fn name, mutant name, text)
        self.template = ""


def generate(template_path, with_mutants=False):
    parts = parse_template(template_path)
    extracts = [p[1] for p in parts if p[0] == "extract"]
    plan = {"repo": REPO, "items": [_plan_item(i, ex) for i, ex in enumerate(extracts)]}
    res = run_vx("extract", plan)
    by_id = {r["id"]: r for r in res["items"]}
    g = Generated()
    g.template = template_path
    out, cout = [], []
    mutant_sites = []   # (index into out, ex, raw text, infos)
    idx = 0
    for kind, val in parts:
        if kind == "text":
            out.append(val)
            # a line `// CANARY[name]` at the end of a proof fn of the template becomes `assert(false)` in the vacuity file: the lemma's
            # hypotheses (and the axioms it uses) must not be contradictory
            cout.append(re.sub(r"^(\s*)// CANARY\[(\w+)\]\s*$", r"\1assert(false); /*canary:lemma:\2*/", val, flags=re.M))
            continue
        ex = val
        r = by_id[str(idx)]
        idx += 1
        if r.get("error"):
            raise Undecided(f"{ex.file} {ex.kind} {ex.name}: {r['error']}")
        text = r["text"]
        ctext = text
        if ex.kind in ("fn", "impl"):
            infos = r["fns"]
            for f, info in zip(ex.fns, infos):
                text = _splice_fn(text, f, info, canary=False)
                ctext = _splice_fn(ctext, f, info, canary=True)
                g.functions.append({
                    "name": f.name,
                    "container": ex.name if ex.kind == "impl" else None,
                    "file": ex.file,
                    "hash_repo_tokens": info["hash_before"],
                    "hash_after_rules": info["hash_after"],
                    "rules_applied": info["rules_applied"],
                    "n_loops": info["n_loops"],
                    "n_closures": info["n_closures"],
                    "calls": info["calls"],
                    "requires": [l.strip() for l in f.spec if l.strip()],
                    "loop_invariants": sum(len(v["lines"]) for v in f.loops.values()),
                    "closure_contracts": len(f.closures),
                    "mutants": [m["name"] for m in f.mutants],
                    "assumed": f.assumed[0] if f.assumed else None,
                })
            for a in r.get("auto_fns", []):
                # E27: an unlisted pure helper of the same impl, extracted with the contract `result == its own body`
                g.functions.append({
                    "name": a["name"], "container": ex.name if ex.kind == "impl" else None, "file": ex.file,
                    "hash_repo_tokens": a["hash_before"], "hash_after_rules": a["hash_before"], "rules_applied": {"E27": 1},
                    "n_loops": 0, "n_closures": 0, "calls": [], "requires": ["ensures result == (the function's own straight-line body)"],
                    "loop_invariants": 0, "closure_contracts": 0, "mutants": [], "assumed": None, "auto": True,
                })
            if any(f.mutants for f in ex.fns):
                mutant_sites.append((len(out), ex, r["text"], infos))
        else:
            if ex.opts.get("clone") == "spec":
                # E2: `.clone()` gets the specification "result == self" only for types whose Clone is derived in /repo
                if "Clone" not in r.get("derives", []):
                    raise Undecided(f"lost anchor: {ex.name} no longer derives Clone in {ex.file}; clone=spec refused")
                tail = (f"// TRUSTED[derive-clone-{ex.name}]: #[derive(Clone)] in /repo ({ex.file}) yields a value equal to the original\n"
                        f"impl Clone for {ex.name} {{\n    #[verifier::external_body]\n    fn clone(&self) -> (r: Self)\n        ensures r == *self,\n    {{ unimplemented!() }}\n}}\n")
                text = text + tail
                ctext = ctext + tail
            if ex.opts.get("hash") == "derived":
                if not {"Hash", "Eq", "PartialEq"} <= set(r.get("derives", [])):
                    raise Undecided(f"lost anchor: {ex.name} no longer derives Hash+Eq in {ex.file}; hash=derived refused")
                tail = (f"// TRUSTED[derive-hash-{ex.name}]: #[derive(Hash, PartialEq, Eq)] in /repo ({ex.file}) are consistent (equal values hash equally)\n"
                        f"pub axiom fn axiom_key_model_{ex.name}()\n    ensures vstd::std_specs::hash::obeys_key_model::<{ex.name}>();\n")
                text = text + tail
                ctext = ctext + tail
            if ex.opts.get("eq") == "spec":
                # exec `==` on a type whose derived PartialEq Verus cannot see through (String payloads): the derived impl is declared
                # with the specification "equal exactly when the values are equal" — only while /repo still derives it
                if "PartialEq" not in r.get("derives", []):
                    raise Undecided(f"lost anchor: {ex.name} no longer derives PartialEq in {ex.file}; eq=spec refused")
                n = ex.name
                tail = (f"// TRUSTED[derive-partialeq-{n}]: #[derive(PartialEq)] in /repo ({ex.file}) compares variants and fields; two values are equal under it\n"
                        f"// exactly when they are the same value (String fields: the same text)\n"
                        f"#[allow(non_snake_case)]\npub uninterp spec fn derived_eq_{n}(a: {n}, b: {n}) -> bool;\n"
                        f"impl vstd::std_specs::cmp::PartialEqSpecImpl for {n} {{\n"
                        f"    open spec fn obeys_eq_spec() -> bool {{ true }}\n"
                        f"    open spec fn eq_spec(&self, other: &Self) -> bool {{ derived_eq_{n}(*self, *other) }}\n}}\n"
                        f"impl PartialEq for {n} {{\n    // TRUSTED[derive-partialeq-{n}]: see above\n    #[verifier::external_body]\n"
                        f"    fn eq(&self, other: &Self) -> bool {{ unimplemented!() }}\n}}\n"
                        f"// TRUSTED[derive-partialeq-{n}]: see above\n#[allow(non_snake_case)]\n"
                        f"pub broadcast axiom fn axiom_derived_eq_{n}(a: {n}, b: {n})\n    ensures #[trigger] derived_eq_{n}(a, b) == (a == b);\n")
                text = text + tail
                ctext = ctext + tail
            if ex.opts.get("eq") == "structural":
                if "PartialEq" not in r.get("derives", []):
                    raise Undecided(f"lost anchor: {ex.name} no longer derives PartialEq in {ex.file}; eq=structural refused")
                tail = (f"// TRUSTED[derive-partialeq-{ex.name}]: #[derive(PartialEq)] in /repo ({ex.file}) is structural equality\n"
                        f"pub axiom fn axiom_structural_eq_{ex.name}()\n    ensures structural_eq::<{ex.name}>();\n")
                text = text + tail
                ctext = ctext + tail
            g.items.append({"name": ex.name, "kind": ex.kind, "file": ex.file,
                            "hash_repo_tokens": r["hash_before"], "hash_after_rules": r["hash_after"]})
        hdr = f"// >>> vx: {ex.kind} {ex.name}  (extracted from {ex.file} on this run)"
        out += [hdr] + text.rstrip("\n").split("\n") + ["// <<< vx"]
        cout += [hdr] + ctext.rstrip("\n").split("\n") + ["// <<< vx"]
    g.text = "\n".join(out) + "\n"
    g.canary_text = "\n".join(cout) + "\n"
    if len(out) != len(cout):
        raise Undecided("internal: canary file and main file differ in line count")
    if with_mutants:
        # a mutant is a regex rewrite of the *extracted* exec text of one function (negative control)
        for pos, ex, raw, infos in mutant_sites:
            for f in ex.fns:
                for m in f.mutants:
                    # tolerate prettyplease line breaks: spaces and dots in the pattern match any whitespace around them
                    pat = m["pat"].replace(" ", r"\s*").replace(r"\.", r"\s*\.\s*")
                    mraw, n = re.subn(pat, m["repl"], raw, count=1, flags=re.S)
                    if n != 1:
                        raise Undecided(f"negative control {f.name}/{m['name']}: pattern not found in extracted text")
                    mt = mraw
                    for f2, info in zip(ex.fns, infos):
                        mt = _splice_fn(mt, f2, info, canary=False)
                    # rebuild whole file with this block swapped
                    blk_old = None
                    # locate block by header line
                    hdr = f"// >>> vx: {ex.kind} {ex.name}  (extracted from {ex.file} on this run)"
                    lines = g.text.split("\n")
                    # find the header occurrence at/after pos
                    hi = next(i for i in range(len(lines)) if lines[i] == hdr and i >= pos)
                    ei = next(i for i in range(hi, len(lines)) if lines[i] == "// <<< vx")
                    new = lines[:hi + 1] + mt.rstrip("\n").split("\n") + lines[ei:]
                    g.mutants.append((f.name, m["name"], "\n".join(new)))
    return g
