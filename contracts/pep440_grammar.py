"""PEP 440 Appendix B regular expression (packaging's VERSION_PATTERN), ASCII and case-insensitive, without
surrounding whitespace (property C09), as SMT-LIB RegLan."""
SOURCE = "PEP 440 Appendix B VERSION_PATTERN with re.IGNORECASE restricted to ASCII, transcribed by hand to RegLan in contracts/pep440_grammar.py"


def ci(word):
    parts = []
    for ch in word:
        if ch.isalpha():
            parts.append(f'(re.union (str.to_re "{ch.lower()}") (str.to_re "{ch.upper()}"))')
        else:
            parts.append(f'(str.to_re "{ch}")')
    return parts[0] if len(parts) == 1 else "(re.++ " + " ".join(parts) + ")"


def alt(*words):
    return "(re.union " + " ".join(ci(w) for w in words) + ")"


DIGITS = '(re.+ (re.range "0" "9"))'
SEP = '(re.opt (re.union (str.to_re "-") (str.to_re "_") (str.to_re ".")))'
EPOCH = f'(re.opt (re.++ {DIGITS} (str.to_re "!")))'
RELEASE = f'(re.++ {DIGITS} (re.* (re.++ (str.to_re ".") {DIGITS})))'
PRE = f'(re.opt (re.++ {SEP} {alt("a", "b", "c", "rc", "alpha", "beta", "pre", "preview")} {SEP} (re.opt {DIGITS})))'
POST = f'(re.opt (re.union (re.++ (str.to_re "-") {DIGITS}) (re.++ {SEP} {alt("post", "rev", "r")} {SEP} (re.opt {DIGITS}))))'
DEV = f'(re.opt (re.++ {SEP} {ci("dev")} {SEP} (re.opt {DIGITS})))'
LOCALCH = '(re.union (re.range "a" "z") (re.range "A" "Z") (re.range "0" "9"))'
LOCAL = f'(re.opt (re.++ (str.to_re "+") (re.+ {LOCALCH}) (re.* (re.++ (re.union (str.to_re "-") (str.to_re "_") (str.to_re ".")) (re.+ {LOCALCH})))))'
SPEC = f'(re.++ (re.opt {ci("v")}) {EPOCH} {RELEASE} {PRE} {POST} {DEV} {LOCAL})'

# PEP440::from_str never rejects after the regex matched (integer parse failures become 0, see evidence)
PARSES_OK = 're.all'
