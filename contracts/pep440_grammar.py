"""PEP 440 Appendix B regular expression (packaging's VERSION_PATTERN), ASCII and case-insensitive, without
surrounding whitespace (property C09), as SMT-LIB RegLan."""
SOURCE = "PEP 440 Appendix B VERSION_PATTERN with re.IGNORECASE restricted to ASCII, transcribed by hand to RegLan in contracts/pep440_grammar.py"


def ci(word):
    parts = []
    for ch in word:
        if ch.isalpha():
            parts.append(f'(re.union (str.to_re "{ch.lower()}") (str.to_re "{ch.upper()}"))')
        else:
            parts.append(f'(str.to_re "{ch}")')
    return parts[0] if len(parts) == 1 else "(re.++ " + " ".join(parts) + ")"


def alt(*words):
    return "(re.union " + " ".join(ci(w) for w in words) + ")"


DIGITS = '(re.+ (re.range "0" "9"))'
SEP = '(re.opt (re.union (str.to_re "-") (str.to_re "_") (str.to_re ".")))'
EPOCH = f'(re.opt (re.++ {DIGITS} (str.to_re "!")))'
RELEASE = f'(re.++ {DIGITS} (re.* (re.++ (str.to_re ".") {DIGITS})))'
PRE = f'(re.opt (re.++ {SEP} {alt("a", "b", "c", "rc", "alpha", "beta", "pre", "preview")} {SEP} (re.opt {DIGITS})))'
POST = f'(re.opt (re.union (re.++ (str.to_re "-") {DIGITS}) (re.++ {SEP} {alt("post", "rev", "r")} {SEP} (re.opt {DIGITS}))))'
DEV = f'(re.opt (re.++ {SEP} {ci("dev")} {SEP} (re.opt {DIGITS})))'
LOCALCH = '(re.union (re.range "a" "z") (re.range "A" "Z") (re.range "0" "9"))'
LOCAL = f'(re.opt (re.++ (str.to_re "+") (re.+ {LOCALCH}) (re.* (re.++ (re.union (str.to_re "-") (str.to_re "_") (str.to_re ".")) (re.+ {LOCALCH})))))'
SPEC = f'(re.++ (re.opt {ci("v")}) {EPOCH} {RELEASE} {PRE} {POST} {DEV} {LOCAL})'

# PEP440::from_str never rejects after the regex matched (integer parse failures become 0, see evidence)
PARSES_OK = 're.all'

# ---- group structure the Verus contract of `FromStr for PEP440` relies on (unit pep440_parse, TRUSTED[pep440-regex-groups]): `release` is not optional;
# `pre_n` lies inside `pre` next to the non-optional `pre_l`; `post_n1` and `post_n2` lie in the two alternatives of `post` (never both); `dev_n` inside `dev`
SKELETON = "^<re>[(epoch)!]?(release)[(pre:<re>(pre_l)<re>[(pre_n)]?)]?[(post:{-(post_n1)|<re>(post_l)<re>[(post_n2)]?})]?[(dev:<re>(dev_l)<re>[(dev_n)]?)]?[+(local)]?$"
GROUPS = {"epoch": DIGITS, "release": RELEASE, "pre_n": DIGITS, "post_n1": DIGITS, "post_n2": DIGITS, "dev_n": DIGITS,
          "pre_l": alt("a", "b", "c", "rc", "alpha", "beta", "pre", "preview"),
          # the local text: runs of ASCII letters and digits separated by single `-`, `_` or `.` — what the contract of parse_local_segments requires
          # (unit pep440_local: local_text_ok), so that the segment constructor's `unwrap()` cannot fail
          "local": f'(re.++ (re.+ {LOCALCH}) (re.* (re.++ (re.union (str.to_re "-") (str.to_re "_") (str.to_re ".")) (re.+ {LOCALCH}))))'}
UNIQUE_WHY = ("from_str reads each number group on its own and tests `post` / `dev` for presence only, so it does not rely on a unique decomposition of the "
              "whole text; what it relies on is which groups can be present together, read off the skeleton")
