"""SemVer 2.0.0 grammar (https://semver.org/#backusnaur-form-grammar-for-valid-semver-versions) as SMT-LIB RegLan,
written from the BNF of the standard, ASCII only, optionally preceded by `v` (property C08)."""
SOURCE = "SemVer 2.0.0 BNF (semver.org), transcribed by hand to RegLan in contracts/semver_grammar.py; optional leading `v` per property C08"

DIGIT = '(re.range "0" "9")'
POSDIGIT = '(re.range "1" "9")'
LETTER = '(re.union (re.range "a" "z") (re.range "A" "Z"))'
NONDIGIT = f'(re.union {LETTER} (str.to_re "-"))'
IDCHAR = f'(re.union {DIGIT} {NONDIGIT})'
# <numeric identifier> ::= "0" | <positive digit> | <positive digit> <digits>
NUMERIC = f'(re.union (str.to_re "0") (re.++ {POSDIGIT} (re.* {DIGIT})))'
# <alphanumeric identifier> ::= <non-digit> | <non-digit> <identifier characters> | <identifier characters> <non-digit> | <identifier characters> <non-digit> <identifier characters>
ALNUM_ID = f'(re.++ (re.* {IDCHAR}) {NONDIGIT} (re.* {IDCHAR}))'
PRE_ID = f'(re.union {ALNUM_ID} {NUMERIC})'
# <build identifier> ::= <alphanumeric identifier> | <digits>
BUILD_ID = f'(re.+ {IDCHAR})'
DOT = '(str.to_re ".")'
PRE = f'(re.++ {PRE_ID} (re.* (re.++ {DOT} {PRE_ID})))'
BUILD = f'(re.++ {BUILD_ID} (re.* (re.++ {DOT} {BUILD_ID})))'
CORE = f'(re.++ {NUMERIC} {DOT} {NUMERIC} {DOT} {NUMERIC})'
SPEC = f'(re.++ (re.opt (str.to_re "v")) {CORE} (re.opt (re.++ (str.to_re "-") {PRE})) (re.opt (re.++ (str.to_re "+") {BUILD})))'

# image of the post-regex integer parsing: `str::parse::<u64>` accepts only ASCII digits (and an optional '+', which the
# pattern's groups cannot contain); so a match is accepted only if the three core numbers are ASCII digit strings.
# (u64 range is not part of the language obligation; see evidence assumptions.)
ASCII_NUM = f'(re.+ {DIGIT})'
PARSES_OK = f'(re.++ (re.opt (str.to_re "v")) {ASCII_NUM} {DOT} {ASCII_NUM} {DOT} {ASCII_NUM} (re.opt (re.++ (re.union (str.to_re "-") (str.to_re "+")) re.all)))'

# ---- group structure the Verus contract of `FromStr for SemVer` relies on (unit semver_parts, TRUSTED[semver-regex-groups])
SKELETON = "^[v]?(major).(minor).(patch)[-(prerelease)]?[+(buildmetadata)]?$"
GROUPS = {"major": NUMERIC, "minor": NUMERIC, "patch": NUMERIC, "prerelease": PRE, "buildmetadata": BUILD}
UNIQUE_WHY = ("the core groups hold digits only, so each ends at the next `.` / `-` / `+`; the pre-release group holds no `+`, so it ends at the first `+` "
              "or at the end; hence every text has at most one decomposition")
