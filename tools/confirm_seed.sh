#!/bin/bash
# confirm_seed.sh <id>: in /tmp/seed/<id> (patch applied) run the whole suite and compare the failing set with the unchanged tree's
id=$1
cd /tmp/seed/$id || exit 2
export CARGO_TARGET_DIR=/tmp/seed/$id/target
timeout 3000 cargo nextest run --workspace --no-fail-fast --test-threads 8 --offline > /tmp/seed/$id.nextest.log 2>&1
grep -E "Summary" /tmp/seed/$id.nextest.log
grep -E "^\s+FAIL" /tmp/seed/$id.nextest.log | sed 's/.*) //' | sort -u > /tmp/seed/$id.fail.txt
if diff -q /tmp/sp/fail2.txt /tmp/seed/$id.fail.txt >/dev/null; then echo "SUITE-SAME-AS-BASELINE (only the 53 sandbox git/docker failures)"; else echo "SUITE-DIFFERS:"; diff /tmp/sp/fail2.txt /tmp/seed/$id.fail.txt | head -20; fi
