#!/bin/bash
# eval_seed.sh <id> <prop>: for the sub-agent change in /tmp/seed/<id> (patch.diff, demo/, meta.txt):
#  1. whole suite with the change (failing set must equal the unchanged tree's, /tmp/sp/fail2.txt)
#  2. demonstration fails with the change, passes without it
#  3. apply to /repo, run the property's quick check, undo
# prints one summary line; the caller decides whether to keep it (tools/keep_seed.py)
id=$1; prop=$2
w=/tmp/seed/$id
cd $w || exit 2
export CARGO_TARGET_DIR=$w/target
git -C $w checkout -q -- src 2>/dev/null; git -C $w apply $w/patch.diff || { echo "$id: patch does not apply to a clean checkout"; exit 2; }
timeout 3000 cargo nextest run --workspace --no-fail-fast --test-threads 8 --offline > /tmp/seed/$id.nextest.log 2>&1
summ=$(grep -E "Summary" /tmp/seed/$id.nextest.log | head -1)
grep -E "^\s+FAIL" /tmp/seed/$id.nextest.log | sed 's/.*) //' | sort -u > /tmp/seed/$id.fail.txt
if diff -q /tmp/sp/fail2.txt /tmp/seed/$id.fail.txt >/dev/null; then same=SAME; else same="DIFFERS: $(diff /tmp/sp/fail2.txt /tmp/seed/$id.fail.txt | head -5 | tr '\n' ' ')"; fi
# demo with the change
cp -n $w/Cargo.lock $w/demo/Cargo.lock 2>/dev/null
(cd $w && cargo build --offline >/dev/null 2>&1)
(cd $w/demo && CARGO_TARGET_DIR=$w/demo/target timeout 1200 cargo test --offline > /tmp/seed/$id.demo_with.log 2>&1); dw=$?
git -C $w checkout -q -- src
(cd $w && cargo build --offline >/dev/null 2>&1)
(cd $w/demo && CARGO_TARGET_DIR=$w/demo/target timeout 1200 cargo test --offline > /tmp/seed/$id.demo_without.log 2>&1); dwo=$?
git -C $w apply $w/patch.diff
echo "$id: suite $summ $same; demo with=$dw without=$dwo" | tee -a /verif/seeded/CONFIRMATIONS.txt
unset CARGO_TARGET_DIR
cd /verif
git -C /repo apply $w/patch.diff || { echo "$id: patch does not apply to /repo"; exit 2; }
out=$(./check $prop --tier quick 2>&1); e=$?
git -C /repo checkout -- .
git -C /verif checkout -- evidence
echo "$id ($prop) exit=$e $(echo "$out" | grep -E '^VIOLATION|^UNDECIDED' | sort -r | sed 's/replay=[^ ]* //' | head -4 | tr '\n' ' ' | cut -c1-400)"
