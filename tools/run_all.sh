#!/bin/bash
# run every claimed check (default quick) on the current tree, validate MANIFEST and evidence against the schemas
cd "$(dirname "$0")/.."
tier=${1:-quick}
rc=0
for p in $(python3 -c "import json;print(' '.join(sorted(json.load(open('props.json')))))"); do
  out=$(./check $p --tier $tier 2>&1); e=$?
  echo "$p exit=$e $(echo "$out" | tail -1 | cut -c1-150)"
  [ $e -ne 0 ] && rc=1
done
python3-vt - <<'PY'
import json,jsonschema,glob,sys
ms=json.load(open('/root/.vp/MANIFEST.schema.json')); es=json.load(open('/root/.vp/EVIDENCE.schema.json'))
m=json.load(open('MANIFEST.json')); jsonschema.validate(m,ms)
bad=0
for c in m['checks']:
    e=json.load(open(c['evidence_file'])); jsonschema.validate(e,es)
    cov=e['coverage']
    if e['level']=='proof' and cov['obligations']!=cov['discharged']: print("MISMATCH",c['property_id'],cov['obligations'],cov['discharged']); bad=1
print("manifest+evidence valid" if not bad else "EVIDENCE PROBLEM")
PY
exit $rc
