#!/usr/bin/env python3
"""Regenerate /verif/MANIFEST.json from props.json (claimed) and na.json (not applicable)."""
import json, os
H = os.path.dirname(os.path.dirname(os.path.abspath(__file__)))
props = json.load(open(f"{H}/props.json"))
na = json.load(open(f"{H}/na.json"))
checks = []
allp = [json.loads(l)["id"] for l in open(f"{H}/properties.jsonl")]
for pid in allp:
    if pid not in props and not any(n["property_id"] == pid for n in na):
        na.append({"property_id": pid, "reason": "check under construction in this framework; not claimed at this commit"})
na = [n for n in na if n["property_id"] not in props]
for pid in sorted(props):
    c = props[pid]
    checks.append({
        "property_id": pid,
        "quick_cmd": f"./check {pid} --tier quick",
        "thorough_cmd": f"./check {pid} --tier thorough",
        "evidence_file": f"/verif/evidence/{pid}.json",
        "replay_cmd_template": "./check --replay {path}",
        "engine": "vx+verus" + ("+z3-regex" if c.get("regex") else "") + ("+kani" if c.get("kani") else ""),
        "level_claimed": {"category": c.get("level", "proof"), "text": c["level_text"], "design_ref": c.get("design_ref", "DESIGN.md §3")},
        "level_note": c["level_note"],
        "technique": c["technique"],
    })
m = {
    "version": 1,
    "setup_cmd": "cd /verif/vx && CARGO_NET_OFFLINE=true cargo build --release --offline && cd /verif/cex && cp -n /repo/Cargo.lock Cargo.lock; CARGO_NET_OFFLINE=true cargo build --offline",
    "hooks": {
        "guard": "zerv_verif",
        "enable": "no hooks and no cfg flag are needed: contracts live in /verif and are spliced into text re-extracted from /repo on every run; the bounded engine uses the crate's public API",
        "baseline_off_cmd": "cd /repo && cargo nextest run --workspace --no-fail-fast --test-threads 8 --offline || cargo test --workspace --no-fail-fast --offline",
        "source_commits": [],
        "add_only": True,
    },
    "engines": [
        {"name": "vx", "path": "/verif/vx", "serves_properties": sorted(props), "kind_free_text": "syn/prettyplease extractor + contract splicer; regex literal -> SMT-LIB RegLan"},
        {"name": "verus", "path": "/usr/local/bin/verus", "serves_properties": sorted(p for p in props if props[p].get("units")), "kind_free_text": "deductive verifier (z3 back end), single generated file per unit"},
        {"name": "cex", "path": "/verif/cex", "serves_properties": sorted(p for p in props if props[p].get("units") or props[p].get("cex_families")), "kind_free_text": "bounded counterexample search on the real crate (path dependency on /repo): supplies concrete failing inputs for replay files, settles lost-anchor cases, bounded stand-in for assumed contracts; never counted as proof"},
        {"name": "cliengine", "path": "/verif/lib/cliengine.py", "serves_properties": sorted(p for p in props if props[p].get("cli_families")), "kind_free_text": "process-level bounded family on the real binary (streams, exit status, failing git); bounded only, never counted as proof"},
        {"name": "rengine", "path": "/verif/lib/rengine.py", "serves_properties": sorted(p for p in props if props[p].get("regex")), "kind_free_text": "z3 / cvc5 emptiness queries on regular languages, witnesses replayed on the real binary"},
    ],
    "checks": checks,
    "not_applicable": na,
    "notes": "Technique family: contract-based deductive verification of the real code (Verus on functions mechanically re-extracted from /repo on every run; solver-discharged regex-language obligations). Code no contract reaches has a bounded stand-in on the real crate / binary, labelled bounded in the evidence and never counted in obligations/discharged. Kani is not used (DESIGN.md 2b). exit 0 = held on everything explored; exit 1 + VIOLATION line = a named obligation failed or a concrete input fails on the real code; exit 2 = UNDECIDED (lost contract anchor / unsupported construct / tool limit), never an alarm.",
}
json.dump(m, open(f"{H}/MANIFEST.json", "w"), indent=1)
print("wrote MANIFEST.json with", len(checks), "checks,", len(na), "not applicable")
