#!/usr/bin/env python3
"""Regenerate /verif/MANIFEST.json from props.json (claimed) and na.json (not applicable)."""
import json, os
H = os.path.dirname(os.path.dirname(os.path.abspath(__file__)))
props = json.load(open(f"{H}/props.json"))
na = json.load(open(f"{H}/na.json"))
checks = []
allp = [json.loads(l)["id"] for l in open(f"{H}/properties.jsonl")]
for pid in allp:
    if pid not in props and not any(n["property_id"] == pid for n in na):
        na.append({"property_id": pid, "reason": "check under construction in this framework; not claimed at this commit"})
na = [n for n in na if n["property_id"] not in props]
for pid in sorted(props):
    c = props[pid]
    checks.append({
        "property_id": pid,
        "quick_cmd": f"./check {pid} --tier quick",
        "thorough_cmd": f"./check {pid} --tier thorough",
        "evidence_file": f"/verif/evidence/{pid}.json",
        "replay_cmd_template": "./check --replay {path}",
        "engine": "vx+verus" + ("+z3-regex" if c.get("regex") else "") + ("+kani" if c.get("kani") else ""),
        "level_claimed": {"category": c.get("level", "proof"), "text": c["level_text"], "design_ref": c.get("design_ref", "DESIGN.md §3")},
        "level_note": c["level_note"],
        "technique": c["technique"],
    })
m = {
    "version": 1,
    "setup_cmd": "cd /verif/vx && CARGO_NET_OFFLINE=true cargo build --release --offline && cd /verif/cex && cp -n /repo/Cargo.lock Cargo.lock; CARGO_NET_OFFLINE=true cargo build --offline",
    "hooks": {
        "guard": "zerv_verif",
        "enable": "no hooks: contracts live in /verif and are spliced into text re-extracted from /repo on every run; Kani harnesses use the public API",
        "baseline_off_cmd": "cd /repo && cargo nextest run --workspace --no-fail-fast --test-threads 8 --offline || cargo test --workspace --no-fail-fast --offline",
        "source_commits": [],
        "add_only": True,
    },
    "engines": [
        {"name": "vx", "path": "/verif/vx", "serves_properties": sorted(props), "kind_free_text": "syn/prettyplease extractor + contract splicer; regex literal -> SMT-LIB RegLan"},
        {"name": "verus", "path": "/usr/local/bin/verus", "serves_properties": sorted(p for p in props if props[p].get("units")), "kind_free_text": "deductive verifier (z3 back end), single generated file per unit"},
        {"name": "cex", "path": "/verif/cex", "serves_properties": sorted(p for p in props if props[p].get("units")), "kind_free_text": "bounded counterexample search on the real crate (path dependency on /repo): supplies concrete failing inputs for replay files, settles lost-anchor cases, bounded stand-in for assumed contracts; never counted as proof"},
        {"name": "rengine", "path": "/verif/lib/rengine.py", "serves_properties": sorted(p for p in props if props[p].get("regex")), "kind_free_text": "z3 / cvc5 emptiness queries on regular languages, witnesses replayed on the real binary"},
    ],
    "checks": checks,
    "not_applicable": na,
    "notes": "Technique family: contract-based deductive verification of the real code (Verus on mechanically extracted functions; SMT regex-language obligations; Kani only as bounded cross-check in the thorough tier). exit 2 = UNDECIDED (lost anchor / tool limit), never an alarm.",
}
json.dump(m, open(f"{H}/MANIFEST.json", "w"), indent=1)
print("wrote MANIFEST.json with", len(checks), "checks,", len(na), "not applicable")
