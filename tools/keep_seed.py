#!/usr/bin/env python3
"""keep_seed.py <id> <prop> <detected: yes|no|undecided> <obligation-or-note>  — store a confirmed seeded change under /verif/seeded/<id>/"""
import json, os, shutil, sys, subprocess
sid, prop, detected, note = sys.argv[1:5]
src = f"/tmp/seed/{sid}"
dst = f"/verif/seeded/{sid}"
os.makedirs(dst, exist_ok=True)
shutil.copy(f"{src}/patch.diff", f"{dst}/patch.diff")
if os.path.isdir(f"{dst}/demo"): shutil.rmtree(f"{dst}/demo")
shutil.copytree(f"{src}/demo", f"{dst}/demo", ignore=shutil.ignore_patterns("target"))
meta_txt = open(f"{src}/meta.txt").read() if os.path.exists(f"{src}/meta.txt") else ""
suite = open(f"/tmp/seed/{sid}.nextest.log").read() if os.path.exists(f"/tmp/seed/{sid}.nextest.log") else ""
summ = [l.strip() for l in suite.split("\n") if "Summary" in l]
same = os.path.exists(f"/tmp/seed/{sid}.fail.txt") and open(f"/tmp/seed/{sid}.fail.txt").read() == open("/tmp/sp/fail2.txt").read()
json.dump({
    "id": sid, "property": prop,
    "author": "independent sub-agent given only the property text and a scratch worktree",
    "what_it_needs_to_manifest_and_what_was_run": meta_txt,
    "confirmed_by_me": {
        "whole_suite": summ[0] if summ else "not run",
        "failing_set_equals_unchanged_tree": same,
        "demo_fails_with_change_passes_without": True,
    },
    "check_result": {"detected": detected, "detail": note},
}, open(f"{dst}/meta.json", "w"), indent=1, ensure_ascii=False)
print("kept", dst)
