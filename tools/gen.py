#!/usr/bin/env python3
# dev helper: generate a unit and run verus on it, print classified results
import sys, os
sys.path.insert(0, os.path.join(os.path.dirname(os.path.dirname(os.path.abspath(__file__))), "lib"))
import vxlib, verusrun
unit = sys.argv[1]
g = vxlib.generate(f"{vxlib.VERIF}/contracts/{unit}.vrs", with_mutants="--mutants" in sys.argv)
GEN = os.environ.get("VERIF_GENDIR", "gen"); os.makedirs(f"{vxlib.VERIF}/{GEN}", exist_ok=True)
path = f"{vxlib.VERIF}/{GEN}/{unit}.rs"
open(path, "w").write(g.text)
r = verusrun.run_verus(path, seed=int(__import__('os').environ.get('S','0')))
print("ok", r.ok, "verified", r.verified, "errors", r.errors, "wall", round(r.wall_s,1), "smt_ms", r.smt_ms)
for f in r.failures: print("FAIL", f["kind"], f["fn"], f["line"], f["message"], "|", f["clause"]); print(f["rendered"])
for u in r.undecided: print("UNDECIDED", u)
if "--canary" in sys.argv:
    cp = f"{vxlib.VERIF}/{GEN}/{unit}_canary.rs"; open(cp,"w").write(g.canary_text)
    rc = verusrun.run_verus(cp, multiple_errors=50)
    print("canary: failures", len(rc.failures), "undecided", rc.undecided)
    for f in rc.failures: print("  ", f["kind"], f["fn"], f["line"], f["src"])
for fn, mn, text in g.mutants:
    mp = f"{vxlib.VERIF}/{GEN}/{unit}_mut.rs"; open(mp,"w").write(text)
    rm = verusrun.run_verus(mp)
    print("mutant", fn, mn, "->", "REJECTED" if rm.failures else ("UNDECIDED "+str(rm.undecided)[:300] if rm.undecided else "ACCEPTED(!)"), [ (f["kind"],f["fn"]) for f in rm.failures])
