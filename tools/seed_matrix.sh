#!/bin/bash
# apply every stored seeded change to /repo in turn, run the check of the property it breaks, undo it; print one line per seed
cd /verif
for d in seeded/*/; do
  id=$(basename $d)
  prop=$(python3 -c "import json;print(json.load(open('$d/meta.json'))['property'])")
  git -C /repo apply /verif/${d}patch.diff || { echo "$id: patch does not apply"; continue; }
  out=$(./check $prop --tier quick 2>&1); e=$?
  git -C /repo checkout -- .
  echo "$id ($prop) exit=$e $(echo "$out" | grep -E '^VIOLATION|^UNDECIDED' | sed 's/replay=[^ ]* //' | head -2 | tr '\n' ' ' | cut -c1-260)"
done
# the runs above rewrote evidence/*.json for mutated trees: restore the committed evidence of the unchanged tree
git -C /verif checkout -- evidence
