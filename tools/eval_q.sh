#!/bin/bash
# eval_q.sh <Qid> <k> <prop> [<prop2> …]: confirm the sub-agent change /tmp/seed/<Qid>/out/<k> myself (whole suite with the change has the failing set of
# the unchanged tree /tmp/sp/fail2.txt; the demonstration fails with the change and passes without it), then apply it to /repo, run the quick
# check of each named property and undo it. One summary line per step, appended to seeded/CONFIRMATIONS.txt.
q=$1; k=$2; shift 2
w=/tmp/seed/$q; o=$w/out/$k
cd $w || exit 2
export CARGO_TARGET_DIR=$w/target
git -C $w checkout -q -- src 2>/dev/null
git -C $w apply $o/patch.diff || { echo "$q/$k: patch does not apply to a clean checkout"; exit 2; }
timeout 3000 cargo nextest run --workspace --no-fail-fast --test-threads 8 --offline > $o/my_nextest.log 2>&1
summ=$(grep -E "Summary" $o/my_nextest.log | head -1)
grep -E "^\s+FAIL" $o/my_nextest.log | sed 's/.*) //' | sort -u > $o/my_fail.txt
if diff -q /tmp/sp/fail2.txt $o/my_fail.txt >/dev/null; then same=SAME; else same="DIFFERS: $(diff /tmp/sp/fail2.txt $o/my_fail.txt | head -5 | tr '\n' ' ')"; fi
(cd $w && cargo build --offline >/dev/null 2>&1)
(cd $o/demo && timeout 1200 cargo test --offline > $o/my_demo_with.log 2>&1); dw=$?
git -C $w checkout -q -- src
(cd $w && cargo build --offline >/dev/null 2>&1)
(cd $o/demo && timeout 1200 cargo test --offline > $o/my_demo_without.log 2>&1); dwo=$?
echo "$q/$k: suite $summ $same; demo with=$dw without=$dwo" | tee -a /verif/seeded/CONFIRMATIONS.txt
unset CARGO_TARGET_DIR
cd /verif
for prop in "$@"; do
  git -C /repo apply $o/patch.diff || { echo "$q/$k: patch does not apply to /repo"; exit 2; }
  out=$(./check $prop --tier quick 2>&1); e=$?
  git -C /repo checkout -- .
  git -C /verif checkout -- evidence
  echo "$q/$k ($prop) exit=$e $(echo "$out" | grep -E '^VIOLATION|^UNDECIDED' | sort -r | sed 's/replay=[^ ]* //' | head -5 | tr '\n' ' ' | cut -c1-500)" | tee -a /tmp/seed/RESULTS.txt
done
