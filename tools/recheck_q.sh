#!/bin/bash
# recheck_q.sh <Qid> <k> <prop>…: apply an already confirmed sub-agent change to /repo, run the quick check of each property, undo
q=$1; k=$2; shift 2
o=/tmp/seed/$q/out/$k
[ -f $o/patch.diff ] || o=/verif/seeded/${q}_$k
cd /verif
for prop in "$@"; do
  git -C /repo apply $o/patch.diff || { echo "$q/$k: patch does not apply to /repo"; exit 2; }
  out=$(./check $prop --tier quick 2>&1); e=$?
  git -C /repo checkout -- .
  git -C /verif checkout -- evidence
  echo "$q/$k ($prop) exit=$e $(echo "$out" | grep -E '^VIOLATION|^UNDECIDED' | sort -r | sed 's/replay=[^ ]* //' | head -5 | tr '\n' ' ' | cut -c1-600)"
done
