#!/bin/bash
# apply every stored behaviour-preserving refactoring to /repo in turn, run every check, undo it; one line per (patch, non-OK check)
cd /verif
for p in ${@:-benign/*/patch_*.diff}; do
  git -C /repo apply /verif/$p || { echo "$p: does not apply"; continue; }
  line="$p:"
  for c in C01 C04 C05 C06 C07 C08 C09 C10 C11 C12 C13 C15 C16 C17; do
    out=$(./check $c --tier quick 2>&1); e=$?
    if [ $e -ne 0 ]; then line="$line $c=exit$e"; echo "   $c: $(echo "$out" | grep -E '^VIOLATION|^UNDECIDED' | sed 's/replay=[^ ]* //' | head -2 | tr '\n' ' ' | cut -c1-300)"; fi
  done
  git -C /repo checkout -- .
  echo "$line"
done
# the runs above rewrote evidence/*.json for mutated trees: restore the committed evidence of the unchanged tree
git -C /verif checkout -- evidence
