#!/usr/bin/env python3
"""keep_q.py <Qid> <k> <prop> <first-run: yes|no|undecided> <note>  — store a confirmed sub-agent change /tmp/seed/<Qid>/out/<k> under /verif/seeded/<Qid>_<k>/"""
import json, os, shutil, sys
q, k, prop, detected, note = sys.argv[1:6]
src = f"/tmp/seed/{q}/out/{k}"
dst = f"/verif/seeded/{q}_{k}"
os.makedirs(dst, exist_ok=True)
shutil.copy(f"{src}/patch.diff", f"{dst}/patch.diff")
if os.path.isdir(f"{dst}/demo"): shutil.rmtree(f"{dst}/demo")
shutil.copytree(f"{src}/demo", f"{dst}/demo", ignore=shutil.ignore_patterns("target"))
meta_txt = open(f"{src}/meta.txt").read() if os.path.exists(f"{src}/meta.txt") else ""
log = open(f"{src}/my_nextest.log").read() if os.path.exists(f"{src}/my_nextest.log") else ""
summ = [l.strip() for l in log.split("\n") if "Summary" in l]
same = os.path.exists(f"{src}/my_fail.txt") and open(f"{src}/my_fail.txt").read() == open("/tmp/sp/fail2.txt").read()
def tail(p):
    return [l for l in open(p).read().split("\n") if l.startswith("test result")][-3:] if os.path.exists(p) else []
json.dump({
    "id": f"{q}_{k}", "property": prop,
    "author": "independent sub-agent given only the property text and a scratch worktree",
    "what_it_needs_to_manifest_and_what_was_run": meta_txt,
    "confirmed_by_me": {
        "whole_suite": summ[0] if summ else "not run",
        "failing_set_equals_unchanged_tree": same,
        "demo_with_change": tail(f"{src}/my_demo_with.log"),
        "demo_without_change": tail(f"{src}/my_demo_without.log"),
        "ran": "tools/eval_q.sh (cargo nextest run --workspace with the change in a scratch worktree; demo crate with and without the change; then git -C /repo apply, ./check <prop> --tier quick, git -C /repo checkout -- .)",
    },
    "check_result": {"first_run": detected, "detail": note},
}, open(f"{dst}/meta.json", "w"), indent=1, ensure_ascii=False)
print("kept", dst)
