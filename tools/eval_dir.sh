#!/bin/bash
# eval_dir.sh <prop> <dir-with-m*/patch.diff>: apply each patch to /repo, run the property's check, undo; restore evidence afterwards
cd /verif
prop=$1; dir=$2
for p in $dir/m*/patch.diff; do
  git -C /repo apply $p || { echo "$p: does not apply"; continue; }
  out=$(./check $prop --tier quick 2>&1); e=$?
  git -C /repo checkout -- .
  echo "$p ($prop) exit=$e $(echo "$out" | grep -E '^VIOLATION|^UNDECIDED' | sed 's/replay=[^ ]* //' | head -2 | tr '\n' ' ' | cut -c1-260)"
done
git -C /verif checkout -- evidence
