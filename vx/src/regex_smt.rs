//! `vx regex`: take the pattern literal of a `static NAME: LazyLock<Regex>` item
//! from the repository, parse it with the same `regex-syntax` version the
//! repository's lock file pins, and print the language of the resulting HIR as
//! an SMT-LIB `RegLan` term (whole-string match semantics for a `^…$` pattern).
//!
//! What is dropped / assumed (reported in the output):
//!  * capture groups are erased (language only);
//!  * `^` at the very start and `$` at the very end are consumed as "match the
//!    whole string"; any other look-around makes the translation fail;
//!  * code points above U+2FFFF (outside the SMT-LIB string alphabet) are
//!    clipped from character classes.

use regex_syntax::hir::{Class, Hir, HirKind, Look};
use serde_json::{json, Value};
use syn::visit::Visit;

const SMT_MAX: u32 = 0x2FFFF;

struct LitFinder(Vec<String>);
impl<'ast> Visit<'ast> for LitFinder {
    fn visit_lit_str(&mut self, l: &'ast syn::LitStr) {
        self.0.push(l.value());
    }
}

fn smt_char(c: u32) -> String {
    format!("\\u{{{:x}}}", c)
}

fn smt_str(s: &str) -> String {
    let mut o = String::from("\"");
    for ch in s.chars() {
        let c = ch as u32;
        if (0x20..0x7f).contains(&c) && ch != '"' && ch != '\\' {
            o.push(ch);
        } else {
            o.push_str(&smt_char(c));
        }
    }
    o.push('"');
    o
}

struct Tr {
    clipped: bool,
    notes: Vec<String>,
}

impl Tr {
    fn ranges(&mut self, rs: Vec<(u32, u32)>) -> String {
        let mut parts = Vec::new();
        for (a, mut b) in rs {
            if a > SMT_MAX {
                self.clipped = true;
                continue;
            }
            if b > SMT_MAX {
                b = SMT_MAX;
                self.clipped = true;
            }
            if a == b {
                parts.push(format!("(str.to_re \"{}\")", smt_char(a)));
            } else {
                parts.push(format!("(re.range \"{}\" \"{}\")", smt_char(a), smt_char(b)));
            }
        }
        match parts.len() {
            0 => "re.none".to_string(),
            1 => parts.pop().unwrap(),
            _ => format!("(re.union {})", parts.join(" ")),
        }
    }

    fn hir(&mut self, h: &Hir, top: bool) -> Result<String, String> {
        Ok(match h.kind() {
            HirKind::Empty => "(str.to_re \"\")".to_string(),
            HirKind::Literal(l) => {
                let s = std::str::from_utf8(&l.0).map_err(|_| "non-UTF-8 literal".to_string())?;
                format!("(str.to_re {})", smt_str(s))
            }
            HirKind::Class(Class::Unicode(c)) => {
                self.ranges(c.ranges().iter().map(|r| (r.start() as u32, r.end() as u32)).collect())
            }
            HirKind::Class(Class::Bytes(c)) => {
                if c.ranges().iter().any(|r| r.end() > 0x7f) {
                    return Err("byte class beyond ASCII".into());
                }
                self.ranges(c.ranges().iter().map(|r| (r.start() as u32, r.end() as u32)).collect())
            }
            HirKind::Look(_) => return Err("look-around not at the pattern ends".into()),
            HirKind::Repetition(r) => {
                let sub = self.hir(&r.sub, false)?;
                match (r.min, r.max) {
                    (0, None) => format!("(re.* {})", sub),
                    (1, None) => format!("(re.+ {})", sub),
                    (0, Some(1)) => format!("(re.opt {})", sub),
                    (n, None) => format!("(re.++ ((_ re.loop {} {}) {}) (re.* {}))", n, n, sub, sub),
                    (n, Some(m)) => format!("((_ re.loop {} {}) {})", n, m, sub),
                }
            }
            HirKind::Capture(c) => self.hir(&c.sub, false)?,
            HirKind::Concat(v) => {
                let mut items: &[Hir] = v;
                if top {
                    if let Some(first) = items.first() {
                        if matches!(first.kind(), HirKind::Look(Look::Start)) {
                            items = &items[1..];
                        } else {
                            return Err("pattern is not anchored with ^".into());
                        }
                    }
                    if let Some(last) = items.last() {
                        if matches!(last.kind(), HirKind::Look(Look::End)) {
                            items = &items[..items.len() - 1];
                        } else {
                            return Err("pattern is not anchored with $".into());
                        }
                    }
                    self.notes.push("anchors ^…$ consumed as whole-string match".into());
                }
                let parts: Result<Vec<String>, String> = items.iter().map(|x| self.hir(x, false)).collect();
                let parts = parts?;
                match parts.len() {
                    0 => "(str.to_re \"\")".to_string(),
                    1 => parts[0].clone(),
                    _ => format!("(re.++ {})", parts.join(" ")),
                }
            }
            HirKind::Alternation(v) => {
                let parts: Result<Vec<String>, String> = v.iter().map(|x| self.hir(x, false)).collect();
                format!("(re.union {})", parts?.join(" "))
            }
        })
    }
}

/// does the sub-tree hold a named capture group?
fn has_named_capture(h: &Hir) -> bool {
    match h.kind() {
        HirKind::Capture(c) => c.name.is_some() || has_named_capture(&c.sub),
        HirKind::Repetition(r) => has_named_capture(&r.sub),
        HirKind::Concat(v) | HirKind::Alternation(v) => v.iter().any(has_named_capture),
        _ => false,
    }
}

/// The *skeleton* of the pattern: its structure down to the named groups. Literals are printed as they are, a named group as `(name)`
/// (its own language goes to `groups`), an optional part as `[…]?`, an alternation with named groups inside as `{…|…}`, and every piece
/// without a named group inside that is not a plain literal as `<re>` (its language is part of the whole-pattern obligations only).
fn skeleton(tr: &mut Tr, h: &Hir, top: bool, groups: &mut Vec<(String, String)>) -> Result<String, String> {
    Ok(match h.kind() {
        HirKind::Look(Look::Start) if top => "^".to_string(),
        HirKind::Look(Look::End) if top => "$".to_string(),
        HirKind::Literal(l) => std::str::from_utf8(&l.0).map_err(|_| "non-UTF-8 literal".to_string())?.to_string(),
        HirKind::Capture(c) => match &c.name {
            Some(n) => {
                let lang = tr.hir(&c.sub, false)?;
                groups.push((n.to_string(), lang));
                if has_named_capture(&c.sub) {
                    format!("({}:{})", n, skeleton(tr, &c.sub, false, groups)?)
                } else {
                    format!("({})", n)
                }
            }
            None => skeleton(tr, &c.sub, false, groups)?,
        },
        HirKind::Repetition(r) if (r.min, r.max) == (0, Some(1)) && matches!(r.sub.kind(), HirKind::Literal(_)) => {
            format!("[{}]?", skeleton(tr, &r.sub, false, groups)?)
        }
        _ if !has_named_capture(h) => "<re>".to_string(),
        HirKind::Repetition(r) => {
            if (r.min, r.max) == (0, Some(1)) {
                format!("[{}]?", skeleton(tr, &r.sub, false, groups)?)
            } else {
                return Err("a named group under a repetition other than `?`".into());
            }
        }
        HirKind::Concat(v) => {
            let parts: Result<Vec<String>, String> = v.iter().map(|x| skeleton(tr, x, top, groups)).collect();
            parts?.join("")
        }
        HirKind::Alternation(v) => {
            let parts: Result<Vec<String>, String> = v.iter().map(|x| skeleton(tr, x, false, groups)).collect();
            format!("{{{}}}", parts?.join("|"))
        }
        _ => "<re>".to_string(),
    })
}

pub fn run(plan: &Value) -> Value {
    let repo = plan["repo"].as_str().unwrap_or("/repo");
    let file = plan["file"].as_str().unwrap_or("");
    let name = plan["static"].as_str().unwrap_or("");
    let path = format!("{}/{}", repo, file);
    let src = match std::fs::read_to_string(&path) {
        Ok(s) => s,
        Err(e) => return json!({"error": format!("lost anchor: cannot read {}: {}", path, e)}),
    };
    let f = match syn::parse_file(&src) {
        Ok(f) => f,
        Err(e) => return json!({"error": format!("cannot parse {}: {}", path, e)}),
    };
    let mut pattern: Option<String> = None;
    for it in &f.items {
        if let syn::Item::Static(s) = it {
            if s.ident == name {
                let mut lf = LitFinder(vec![]);
                lf.visit_expr(&s.expr);
                if lf.0.len() == 1 {
                    pattern = Some(lf.0.remove(0));
                } else {
                    return json!({"error": format!("lost anchor: static `{}` holds {} string literals, expected 1", name, lf.0.len())});
                }
            }
        }
    }
    let pattern = match pattern {
        Some(p) => p,
        None => return json!({"error": format!("lost anchor: static `{}` not found in {}", name, file)}),
    };
    // `Regex::new` = RegexBuilder defaults = regex-syntax defaults (unicode on, utf8 on).
    let hir = match regex_syntax::ParserBuilder::new().build().parse(&pattern) {
        Ok(h) => h,
        Err(e) => return json!({"error": format!("regex-syntax rejects the pattern: {}", e), "pattern": pattern}),
    };
    let mut tr = Tr { clipped: false, notes: vec![] };
    let mut groups: Vec<(String, String)> = vec![];
    let skel = skeleton(&mut tr, &hir, true, &mut groups);
    let (skel, skel_err) = match skel { Ok(s) => (s, String::new()), Err(e) => (String::new(), e) };
    let groups_json: serde_json::Map<String, Value> = groups.into_iter().map(|(k, v)| (k, Value::String(v))).collect();
    tr.notes.clear();
    match tr.hir(&hir, true) {
        Ok(smt) => json!({
            "pattern": pattern,
            "skeleton": skel,
            "skeleton_error": skel_err,
            "groups": groups_json,
            "reglan": smt,
            "clipped_above_2ffff": tr.clipped,
            "notes": tr.notes,
            "regex_syntax_version": "0.8.9",
        }),
        Err(e) => json!({"error": format!("unsupported construct: {}", e), "pattern": pattern}),
    }
}
