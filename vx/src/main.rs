//! vx — mechanical extractor for the zerv contract-verification framework.
//!
//! `vx extract` reads a JSON plan on stdin, parses the named files of the
//! repository with `syn`, pulls the named items, applies only the rewrite
//! rules documented in DESIGN.md §2.1 (E2 attributes, E4 `then_with`, E5
//! message construction, E6 type substitution, E9 tail `continue`), inserts
//! *markers* where the driver splices ghost contract text (E7), and prints the
//! result with prettyplease.  Function bodies are never retyped: every exec
//! token of the output that is not one of the listed rewrites comes from the
//! repository's token stream.
//!
//! `vx regex` is in regex.rs.

mod regex_smt;

use proc_macro2::TokenStream;
use quote::{format_ident, quote, ToTokens};
use serde_json::{json, Map, Value};
use std::collections::{BTreeMap, BTreeSet, HashMap};
use syn::visit::Visit;
use syn::visit_mut::{self, VisitMut};
use syn::{parse_quote, Block, Expr, Stmt};

fn main() {
    let args: Vec<String> = std::env::args().collect();
    let cmd = args.get(1).map(|s| s.as_str()).unwrap_or("");
    let mut input = String::new();
    use std::io::Read;
    match cmd {
        "extract" => {
            std::io::stdin().read_to_string(&mut input).unwrap();
            let plan: Value = serde_json::from_str(&input).expect("plan json");
            let out = extract(&plan);
            println!("{}", serde_json::to_string_pretty(&out).unwrap());
        }
        "regex" => {
            std::io::stdin().read_to_string(&mut input).unwrap();
            let plan: Value = serde_json::from_str(&input).expect("plan json");
            let out = regex_smt::run(&plan);
            println!("{}", serde_json::to_string_pretty(&out).unwrap());
        }
        _ => {
            eprintln!("usage: vx extract|regex < plan.json");
            std::process::exit(64);
        }
    }
}

// ---------------------------------------------------------------- utilities

fn norm(s: &str) -> String {
    s.chars().filter(|c| !c.is_whitespace()).collect()
}

fn fnv(s: &str) -> String {
    let mut h: u64 = 0xcbf29ce484222325;
    for b in s.as_bytes() {
        h ^= *b as u64;
        h = h.wrapping_mul(0x100000001b3);
    }
    format!("{:016x}", h)
}

fn ts_string<T: ToTokens>(t: &T) -> String {
    t.to_token_stream().to_string()
}

fn marker_stmt(name: &str) -> Stmt {
    let id = format_ident!("{}", name);
    parse_quote!(#id;)
}

fn last_seg(p: &syn::Path) -> String {
    p.segments.last().map(|s| s.ident.to_string()).unwrap_or_default()
}

// ---------------------------------------------------------------- extraction

fn extract(plan: &Value) -> Value {
    let repo = plan["repo"].as_str().unwrap_or("/repo").to_string();
    let mut cache: HashMap<String, Result<syn::File, String>> = HashMap::new();
    let mut results = Vec::new();
    // E27: names of every function the unit plans to extract (never auto-added), and the helpers already auto-added
    let mut planned: BTreeSet<String> = BTreeSet::new();
    for item in plan["items"].as_array().cloned().unwrap_or_default() {
        for f in item["fns"].as_array().cloned().unwrap_or_default() {
            if let Some(n) = f["name"].as_str() {
                planned.insert(n.to_string());
            }
        }
        if item["kind"].as_str() == Some("fn") {
            if let Some(n) = item["name"].as_str() {
                planned.insert(n.to_string());
            }
        }
    }
    let mut auto_done: BTreeSet<String> = BTreeSet::new();
    for item in plan["items"].as_array().cloned().unwrap_or_default() {
        let file = item["file"].as_str().unwrap_or("").to_string();
        let parsed = cache.entry(file.clone()).or_insert_with(|| {
            let p = format!("{}/{}", repo, file);
            match std::fs::read_to_string(&p) {
                Err(e) => Err(format!("cannot read {}: {}", p, e)),
                Ok(src) => syn::parse_file(&src).map_err(|e| format!("cannot parse {}: {}", p, e)),
            }
        });
        let res = match parsed {
            Err(e) => json!({"id": item["id"], "error": e.clone()}),
            Ok(f) => match extract_item(f, &item, &planned, &mut auto_done) {
                Ok(mut v) => {
                    v["id"] = item["id"].clone();
                    v["file"] = json!(file);
                    v
                }
                Err(e) => json!({"id": item["id"], "error": e, "file": file}),
            },
        };
        results.push(res);
    }
    json!({ "items": results })
}

fn items_in<'a>(f: &'a syn::File, mod_path: &[String]) -> Result<&'a Vec<syn::Item>, String> {
    let mut items = &f.items;
    for m in mod_path {
        let mut found = None;
        for it in items {
            if let syn::Item::Mod(im) = it {
                if im.ident == m {
                    if let Some((_, content)) = &im.content {
                        found = Some(content);
                    }
                }
            }
        }
        items = found.ok_or_else(|| format!("lost anchor: module `{}` not found", m))?;
    }
    Ok(items)
}

fn impl_header(i: &syn::ItemImpl) -> String {
    match &i.trait_ {
        Some((_, p, _)) => norm(&format!("{} for {}", ts_string(p), ts_string(&*i.self_ty))),
        None => norm(&ts_string(&*i.self_ty)),
    }
}

/// E31: a call to a free function of the same file that the unit does not list and whose body is straight-line pure code (the E27 conditions:
/// only `let x = e;` and a tail expression, no mutation, early exit, loop, closure or macro) is replaced by that body, with the arguments bound
/// first, in order, to the parameters' declared types: `f(a, b)` ==> `{ let __vx_i0: T0 = a; let __vx_i1: T1 = b; { let p0: T0 = __vx_i0; let p1: T1 =
/// __vx_i1; BODY } }`. That is what the call evaluates to; the caller is then verified against the helper's real text, so moving a sub-expression
/// into such a helper keeps the caller's contract decidable (a helper that is not pure in that sense is left alone: undecided as before).
struct HelperInliner<'a> {
    helpers: BTreeMap<String, &'a syn::ItemFn>,
    count: usize,
}
impl<'a> VisitMut for HelperInliner<'a> {
    fn visit_expr_mut(&mut self, e: &mut Expr) {
        visit_mut::visit_expr_mut(self, e);
        let mut repl: Option<Expr> = None;
        if let Expr::Call(c) = &*e {
            if let Expr::Path(p) = &*c.func {
                if let Some(id) = p.path.get_ident() {
                    if let Some(f) = self.helpers.get(&id.to_string()) {
                        if f.sig.inputs.len() == c.args.len() {
                            let mut outer: Vec<syn::Stmt> = Vec::new();
                            let mut inner: Vec<syn::Stmt> = Vec::new();
                            let mut ok = true;
                            for (k, (a, arg)) in f.sig.inputs.iter().zip(c.args.iter()).enumerate() {
                                if let syn::FnArg::Typed(t) = a {
                                    let pat = &t.pat;
                                    let ty = &t.ty;
                                    let tmp = format_ident!("__vx_i{}", k);
                                    outer.push(parse_quote!(let #tmp: #ty = #arg;));
                                    inner.push(parse_quote!(let #pat: #ty = #tmp;));
                                } else {
                                    ok = false;
                                }
                            }
                            if ok {
                                let body = &f.block;
                                repl = Some(parse_quote!({ #(#outer)* { #(#inner)* #body } }));
                            }
                        }
                    }
                }
            }
        }
        if let Some(n) = repl {
            *e = n;
            self.count += 1;
        }
    }
}

fn inline_free_helpers(block: &mut Block, items: &Vec<syn::Item>, planned: &BTreeSet<String>) -> usize {
    let mut helpers: BTreeMap<String, &syn::ItemFn> = BTreeMap::new();
    for it in items {
        if let syn::Item::Fn(func) = it {
            let n = func.sig.ident.to_string();
            let has_lifetimes = func.sig.generics.lifetimes().next().is_some();
            if !planned.contains(&n) && !has_lifetimes && pure_straightline(&func.sig, &func.block) {
                helpers.insert(n, func);
            }
        }
    }
    if helpers.is_empty() {
        return 0;
    }
    let mut total = 0;
    for _round in 0..4 {
        let mut inl = HelperInliner { helpers: helpers.clone(), count: 0 };
        inl.visit_block_mut(block);
        if inl.count == 0 {
            break;
        }
        total += inl.count;
    }
    total
}

fn extract_item(f: &syn::File, item: &Value, planned: &BTreeSet<String>, auto_done: &mut BTreeSet<String>) -> Result<Value, String> {
    let kind = item["kind"].as_str().unwrap_or("");
    let name = item["name"].as_str().unwrap_or("").to_string();
    let mod_path: Vec<String> = item["mod_path"]
        .as_array()
        .map(|a| a.iter().filter_map(|x| x.as_str().map(String::from)).collect())
        .unwrap_or_default();
    let items = items_in(f, &mod_path)?;
    let derive_keep: Vec<String> = item["derive"]
        .as_array()
        .map(|a| a.iter().filter_map(|x| x.as_str().map(String::from)).collect())
        .unwrap_or_else(|| vec!["PartialEq".into(), "Eq".into()]);
    let type_subst: BTreeMap<String, String> = item["type_subst"]
        .as_object()
        .map(|m| m.iter().map(|(k, v)| (norm(k), v.as_str().unwrap_or("").to_string())).collect())
        .unwrap_or_default();
    let fn_plans: Vec<Value> = item["fns"].as_array().cloned().unwrap_or_default();

    match kind {
        "struct" | "enum" | "const" | "static" | "type" => {
            for it in items {
                let (ident, k) = match it {
                    syn::Item::Struct(s) => (s.ident.to_string(), "struct"),
                    syn::Item::Enum(s) => (s.ident.to_string(), "enum"),
                    syn::Item::Const(s) => (s.ident.to_string(), "const"),
                    syn::Item::Static(s) => (s.ident.to_string(), "static"),
                    syn::Item::Type(s) => (s.ident.to_string(), "type"),
                    _ => continue,
                };
                if ident == name && k == kind {
                    let before = ts_string(it);
                    let mut derives: Vec<String> = Vec::new();
                    let empty_attrs: Vec<syn::Attribute> = Vec::new();
                    let attrs: &Vec<syn::Attribute> = match it {
                        syn::Item::Struct(s) => &s.attrs,
                        syn::Item::Enum(s) => &s.attrs,
                        _ => &empty_attrs,
                    };
                    for a in attrs.iter() {
                        if a.path().is_ident("derive") {
                            let _ = a.parse_nested_meta(|m| {
                                derives.push(last_seg(&m.path));
                                Ok(())
                            });
                        }
                    }
                    let mut it2 = it.clone();
                    clean_item(&mut it2, &derive_keep, &type_subst);
                    let file = syn::File { shebang: None, attrs: vec![], items: vec![it2.clone()] };
                    return Ok(json!({
                        "text": prettyplease::unparse(&file),
                        "hash_before": fnv(&before),
                        "hash_after": fnv(&ts_string(&it2)),
                        "derives": derives,
                        "fns": [],
                    }));
                }
            }
            Err(format!("lost anchor: {} `{}` not found", kind, name))
        }
        "fn" => {
            for it in items {
                if let syn::Item::Fn(func) = it {
                    if func.sig.ident == name {
                        let plan = fn_plans.first().cloned().unwrap_or(json!({"name": name}));
                        let mut func2 = func.clone();
                        func2.attrs.clear();
                        let inlined = inline_free_helpers(&mut func2.block, items, planned);
                        let mut info = transform_fn(&mut func2.sig, &mut func2.block, &plan, 0, &type_subst)?;
                        if inlined > 0 {
                            info["rules_applied"]["E31-unlisted-pure-free-helper-inlined"] = json!(inlined);
                        }
                        let file = syn::File { shebang: None, attrs: vec![], items: vec![syn::Item::Fn(func2)] };
                        return Ok(json!({"text": prettyplease::unparse(&file), "fns": [info]}));
                    }
                }
            }
            Err(format!("lost anchor: fn `{}` not found", name))
        }
        "impl" => {
            let want = norm(item["impl"].as_str().unwrap_or(""));
            let mut out_impl: Option<syn::ItemImpl> = None;
            let mut infos = Vec::new();
            let mut found: BTreeSet<String> = BTreeSet::new();
            let mut any_block = false;
            for it in items {
                if let syn::Item::Impl(im) = it {
                    if impl_header(im) != want {
                        continue;
                    }
                    any_block = true;
                    let mut im2 = im.clone();
                    im2.attrs.clear();
                    if let (Some(nt), Some((_, tp, _))) = (item["as_trait"].as_str(), im2.trait_.as_mut()) {
                        // the impl is emitted as an impl of the unit's mirror trait (same method set, contract on the trait)
                        *tp = syn::parse_str(nt).map_err(|e| format!("as_trait: {e}"))?;
                    }
                    let mut keep = Vec::new();
                    for ii in im2.items.iter_mut() {
                        match ii {
                            syn::ImplItem::Fn(m) => {
                                let mname = m.sig.ident.to_string();
                                for (j, p) in fn_plans.iter().enumerate() {
                                    if p["name"].as_str() == Some(mname.as_str()) {
                                        m.attrs.clear();
                                        let inlined = inline_free_helpers(&mut m.block, items, planned);
                                        let mut info = transform_fn(&mut m.sig, &mut m.block, p, j, &type_subst)?;
                                        if inlined > 0 {
                                            info["rules_applied"]["E31-unlisted-pure-free-helper-inlined"] = json!(inlined);
                                        }
                                        infos.push((j, info));
                                        found.insert(mname.clone());
                                        keep.push(ii.clone());
                                        break;
                                    }
                                }
                            }
                            syn::ImplItem::Type(t) if im.trait_.is_some() => {
                                t.attrs.clear();
                                keep.push(ii.clone());
                            }
                            syn::ImplItem::Const(c) if item["keep_consts"].as_bool().unwrap_or(false) => {
                                c.attrs.clear();
                                keep.push(ii.clone());
                            }
                            _ => {}
                        }
                    }
                    im2.items = keep;
                    match &mut out_impl {
                        None => out_impl = Some(im2),
                        Some(o) => o.items.extend(im2.items),
                    }
                }
            }
            if !any_block {
                return Err(format!("lost anchor: impl `{}` not found", item["impl"].as_str().unwrap_or("")));
            }
            for p in &fn_plans {
                let n = p["name"].as_str().unwrap_or("");
                if !found.contains(n) {
                    return Err(format!("lost anchor: fn `{}` not found in impl `{}`", n, item["impl"].as_str().unwrap_or("")));
                }
            }
            infos.sort_by_key(|(j, _)| *j);
            // E27: a function of the same impl that an extracted function calls, that the unit does not list, and whose body is
            // straight-line pure code (lets and a tail expression) is extracted too, with the contract `result == its own body`
            let mut out_impl = out_impl.unwrap();
            let mut autos: Vec<Value> = Vec::new();
            let mut subs: Vec<(String, String, String)> = Vec::new();
            for _round in 0..4 {
                let mut called: BTreeSet<String> = BTreeSet::new();
                for ii in out_impl.items.iter() {
                    if let syn::ImplItem::Fn(m) = ii {
                        let mut cc = CallCollector(BTreeSet::new());
                        cc.visit_block(&m.block);
                        for c in cc.0 {
                            let last = c.rsplit("::").next().unwrap_or("").trim_start_matches('.').to_string();
                            called.insert(last);
                        }
                    }
                }
                let mut added = false;
                for it in items {
                    if let syn::Item::Impl(im) = it {
                        if impl_header(im) != want {
                            continue;
                        }
                        for ii in im.items.iter() {
                            if let syn::ImplItem::Fn(m) = ii {
                                let mname = m.sig.ident.to_string();
                                let key = format!("{}::{}", want, mname);
                                if !called.contains(&mname) || planned.contains(&mname) || auto_done.contains(&key) {
                                    continue;
                                }
                                if !pure_straightline(&m.sig, &m.block) {
                                    continue;
                                }
                                let n = auto_done.len();
                                let mut m2 = m.clone();
                                m2.attrs.clear();
                                let before = format!("{} {}", ts_string(&m.sig), ts_string(&m.block));
                                let body_text = ts_string(&m.block);
                                let ret_ty = if let syn::ReturnType::Type(_, t) = &m.sig.output {
                                    let tt: TokenStream = t.to_token_stream();
                                    let ff: syn::File = parse_quote!(type __T = #tt;);
                                    let st = prettyplease::unparse(&ff);
                                    st.trim().trim_start_matches("type __T =").trim().trim_end_matches(';').trim().to_string()
                                } else {
                                    continue;
                                };
                                let rt = format_ident!("__VX_AUTO{}_RET__", n);
                                m2.sig.output = syn::ReturnType::Type(Default::default(), Box::new(parse_quote!(#rt)));
                                m2.block.stmts.insert(0, marker_stmt(&format!("__VX_AUTO{}_FN__", n)));
                                subs.push((
                                    format!("__VX_AUTO{}_RET__", n),
                                    format!("__VX_AUTO{}_FN__", n),
                                    format!("(__vx_r: {})\n        // E27 auto-contract: the result is the function's own straight-line body\n        ensures __vx_r == ({})", ret_ty, body_text),
                                ));
                                out_impl.items.push(syn::ImplItem::Fn(m2));
                                auto_done.insert(key);
                                autos.push(json!({"name": mname, "hash_before": fnv(&before), "ret_ty": ret_ty}));
                                added = true;
                            }
                        }
                    }
                }
                if !added {
                    break;
                }
            }
            let file = syn::File { shebang: None, attrs: vec![], items: vec![syn::Item::Impl(out_impl)] };
            let mut text = prettyplease::unparse(&file);
            for (ret_m, fn_m, spec) in subs {
                // `-> RET {` `FN;` becomes `-> (r: T) ensures r == body {`
                let spec_txt = spec.replace("\\n", "\n");
                text = text.replace(&ret_m, &spec_txt);
                let marker = format!("{};", fn_m);
                if let Some(pos) = text.find(&marker) {
                    text.replace_range(pos..pos + marker.len(), "");
                }
            }
            Ok(json!({"text": text, "fns": infos.into_iter().map(|(_, i)| i).collect::<Vec<_>>(), "auto_fns": autos}))
        }
        _ => Err(format!("bad plan: unknown kind `{}`", kind)),
    }
}

// ---- E2 / E6: attributes and dependency types on data definitions

fn filter_attrs(attrs: &mut Vec<syn::Attribute>, derive_keep: &[String]) {
    let mut out = Vec::new();
    for a in attrs.iter() {
        if a.path().is_ident("derive") {
            let mut kept: Vec<syn::Path> = Vec::new();
            let _ = a.parse_nested_meta(|m| {
                let n = last_seg(&m.path);
                if derive_keep.iter().any(|k| *k == n) {
                    kept.push(m.path.clone());
                }
                Ok(())
            });
            if !kept.is_empty() {
                out.push(parse_quote!(#[derive(#(#kept),*)]));
            }
        }
    }
    *attrs = out;
}

/// E3: the unit is flat — `crate::a::b::Type::Variant` becomes `Type::Variant`, `crate::a::b::function` becomes `function`.
struct PathFlatten(u64);
impl VisitMut for PathFlatten {
    fn visit_path_mut(&mut self, p: &mut syn::Path) {
        visit_mut::visit_path_mut(self, p);
        let first = p.segments.first().map(|s| s.ident.to_string()).unwrap_or_default();
        if (first == "crate" || first == "super") && p.segments.len() > 1 {
            let segs: Vec<syn::PathSegment> = p.segments.iter().cloned().collect();
            let start = segs
                .iter()
                .position(|s| s.ident.to_string().chars().next().map(|c| c.is_uppercase()).unwrap_or(false))
                .unwrap_or(segs.len() - 1);
            let mut np = syn::punctuated::Punctuated::new();
            for s in segs.into_iter().skip(start) {
                np.push(s);
            }
            p.segments = np;
            p.leading_colon = None;
            self.0 += 1;
        }
    }
}

struct TypeSubst<'a>(&'a BTreeMap<String, String>);
impl<'a> VisitMut for TypeSubst<'a> {
    fn visit_type_mut(&mut self, t: &mut syn::Type) {
        let key = norm(&ts_string(t));
        if let Some(to) = self.0.get(&key) {
            *t = syn::parse_str(to).expect("type_subst target parses");
            return;
        }
        visit_mut::visit_type_mut(self, t);
    }
}

fn clean_item(it: &mut syn::Item, derive_keep: &[String], subst: &BTreeMap<String, String>) {
    match it {
        syn::Item::Struct(s) => {
            filter_attrs(&mut s.attrs, derive_keep);
            for f in s.fields.iter_mut() {
                f.attrs.clear();
            }
        }
        syn::Item::Enum(e) => {
            filter_attrs(&mut e.attrs, derive_keep);
            for v in e.variants.iter_mut() {
                v.attrs.clear();
                for f in v.fields.iter_mut() {
                    f.attrs.clear();
                }
            }
        }
        syn::Item::Const(c) => {
            c.attrs.clear();
            // const items elide to 'static (rustc rule); the verus! macro wants it written out
            if let syn::Type::Reference(r) = &mut *c.ty {
                if r.lifetime.is_none() {
                    r.lifetime = Some(syn::Lifetime::new("'static", proc_macro2::Span::call_site()));
                }
            }
        }
        syn::Item::Static(c) => c.attrs.clear(),
        syn::Item::Type(c) => c.attrs.clear(),
        _ => {}
    }
    TypeSubst(subst).visit_item_mut(it);
    PathFlatten(0).visit_item_mut(it);
}

// ---- function transformation

struct Rules {
    fmt_spec: bool,
    fmt_write: bool,
    split_find: bool,
    ctor_as_fn: bool,
    map_collect: Option<String>,
    fmt_display: bool,
    fmt_display_only: Option<String>,
    iter_find: Option<String>,
    iter_max_by: Option<String>,
    for_ref_skip: bool,
    iter_mut_loop: bool,
    filter_map_collect: Option<String>,
    fmt_concat: bool,
    split_map_collect: Option<String>,
    cloned_collect_fn: Option<String>,
    enumerate_fn: Option<String>,
    impl_arg: bool,
    split_loop: bool,
    mut_self: bool,
    mid_continue: bool,
    closure_wildcards: bool,
    let_chains: bool,
    then_with: bool,
    tail_continue: bool,
    msg_format: bool,
    drop_tracing: bool,
}

#[derive(Default)]
struct Applied {
    counts: BTreeMap<String, u64>,
    warnings: Vec<String>,
}
impl Applied {
    fn bump(&mut self, k: &str) {
        *self.counts.entry(k.to_string()).or_insert(0) += 1;
    }
}

const TRACING_MACROS: &[&str] = &["trace", "debug", "info", "warn", "error"];

fn is_tracing_macro(p: &syn::Path) -> bool {
    let l = last_seg(p);
    if !TRACING_MACROS.contains(&l.as_str()) {
        return false;
    }
    p.segments.len() == 1 || p.segments.first().map(|s| s.ident == "tracing" || s.ident == "log").unwrap_or(false)
}

struct RuleVisitor<'a> {
    rules: &'a Rules,
    applied: &'a mut Applied,
}

impl<'a> VisitMut for RuleVisitor<'a> {
    fn visit_block_mut(&mut self, b: &mut Block) {
        {
            // E3: a crate-relative `use` declaration inside a function body is dropped like the file-level ones (the unit is flat; paths are shortened by the same rule)
            let before = b.stmts.len();
            b.stmts.retain(|s| match s {
                // only crate-relative imports: `use Enum::*;` and the like bring names into scope that the flat unit still needs
                Stmt::Item(syn::Item::Use(u)) => !matches!(&u.tree, syn::UseTree::Path(p) if p.ident == "crate" || p.ident == "super"),
                _ => true,
            });
            for _ in b.stmts.len()..before {
                self.applied.bump("E3-use-in-body-dropped");
            }
        }
        if self.rules.drop_tracing {
            let before = b.stmts.len();
            b.stmts.retain(|s| match s {
                Stmt::Macro(m) => !is_tracing_macro(&m.mac.path),
                Stmt::Expr(Expr::Macro(m), _) => !is_tracing_macro(&m.mac.path),
                _ => true,
            });
            for _ in b.stmts.len()..before {
                self.applied.bump("E5-tracing-removed");
            }
        }
        visit_mut::visit_block_mut(self, b);
    }

    fn visit_expr_mut(&mut self, e: &mut Expr) {
        visit_mut::visit_expr_mut(self, e);
        if self.rules.split_find {
            // E19: `X.split('<c>').find(|p| COND)` ==> `{ let mut __vx_found = None; for __vx_item in vx_split_char(&X, '<c>') {
            //          if __vx_found.is_none() { let p = &__vx_item; if COND { __vx_found = Some(__vx_item); } } } __vx_found }`
            // (`find` evaluates the predicate on the items in order and stops at the first success; the guard `is_none()` stops
            // evaluating it after the first success as well, so the predicate runs on exactly the same items; the items of the pure
            // `split` are materialised by the trusted vx_split_char)
            let mut repl: Option<Expr> = None;
            if let Expr::MethodCall(c2) = &*e {
                if c2.method == "find" && c2.args.len() == 1 {
                    if let (Expr::Closure(cl), Expr::MethodCall(c1)) = (&c2.args[0], &*c2.receiver) {
                        if c1.method == "split" && c1.args.len() == 1 && cl.inputs.len() == 1
                            && matches!(&c1.args[0], Expr::Lit(syn::ExprLit { lit: syn::Lit::Char(_), .. })) {
                            let recv = &c1.receiver;
                            let sep = &c1.args[0];
                            let pat = match &cl.inputs[0] { syn::Pat::Type(pt) => (*pt.pat).clone(), other => other.clone() };
                            let body = &cl.body;
                            repl = Some(parse_quote!({
                                let mut __vx_found: Option<&str> = None;
                                for __vx_item in vx_split_char(&#recv, #sep) {
                                    if __vx_found.is_none() {
                                        let #pat = &__vx_item;
                                        if #body {
                                            __vx_found = Some(__vx_item);
                                        }
                                    }
                                }
                                __vx_found
                            }));
                        }
                    }
                }
            }
            if let Some(n) = repl {
                *e = n;
                self.applied.bump("E19-split-find-as-loop");
            }
        }
        if let Some(elem_ty) = &self.rules.split_map_collect {
            // E18: `X.split(S).map(|p| BODY).collect::<Vec<_>>()` ==> `{ let mut __vx_v = Vec::new(); for p in vx_split_str(&X, S) { __vx_v.push(BODY); } __vx_v }`
            // (map/collect over the finite, pure split iterator is the loop that pushes each mapped item in order; vx_split_str is a
            // trusted prelude function whose body is `s.split(sep).collect()`)
            let mut repl: Option<Expr> = None;
            if let Expr::MethodCall(c3) = &*e {
                if c3.method == "collect" && c3.args.is_empty() {
                    if let Expr::MethodCall(c2) = &*c3.receiver {
                        if c2.method == "map" && c2.args.len() == 1 {
                            if let (Expr::Closure(cl), Expr::MethodCall(c1)) = (&c2.args[0], &*c2.receiver) {
                                if c1.method == "split" && c1.args.len() == 1 && cl.inputs.len() == 1 {
                                    let recv = &c1.receiver;
                                    let sep = &c1.args[0];
                                    let pat = match &cl.inputs[0] { syn::Pat::Type(pt) => (*pt.pat).clone(), other => other.clone() };
                                    let body = &cl.body;
                                    // the element type the compiler infers may be given by the template (`E18=<Type>`): Verus' ghost
                                    // invariants mention the vector before the first push, where inference has no information yet
                                    let new_vec: Expr = if elem_ty.is_empty() { parse_quote!(Vec::new()) } else {
                                        let t: syn::Type = syn::parse_str(elem_ty).unwrap_or(parse_quote!(_));
                                        parse_quote!(Vec::<#t>::new())
                                    };
                                    // a char-literal separator uses the char variant of the trusted split function
                                    let is_char = matches!(sep, Expr::Lit(syn::ExprLit { lit: syn::Lit::Char(_), .. }));
                                    let items: Expr = if is_char { parse_quote!(vx_split_char(&#recv, #sep)) } else { parse_quote!(vx_split_str(&#recv, #sep)) };
                                    repl = Some(parse_quote!({
                                        let mut __vx_v = #new_vec;
                                        for #pat in #items {
                                            __vx_v.push(#body);
                                        }
                                        __vx_v
                                    }));
                                }
                            }
                        }
                    }
                }
            }
            if let Some(n) = repl {
                *e = n;
                self.applied.bump("E18-split-map-collect-as-loop");
            }
        }
        if let Some(item_ty) = &self.rules.iter_find {
            // E23[=ItemType]: `X.iter().find(|p| COND)` ==> `{ let mut __vx_found = None; for __vx_item in X.iter() { if __vx_found.is_none() { let p = &__vx_item;
            // if COND { __vx_found = Some(__vx_item); } } } __vx_found }` (find returns the first item, in order, for which the closure holds;
            // the closure receives a reference to the iterator's item, which for a slice iterator is itself a reference)
            let mut repl: Option<Expr> = None;
            if let Expr::MethodCall(c2) = &*e {
                if c2.method == "find" && c2.args.len() == 1 {
                    if let (Expr::Closure(cl), Expr::MethodCall(c1)) = (&c2.args[0], &*c2.receiver) {
                        if c1.method == "iter" && c1.args.is_empty() && cl.inputs.len() == 1 {
                            let recv = &c1.receiver;
                            let pat = match &cl.inputs[0] { syn::Pat::Type(pt) => (*pt.pat).clone(), other => other.clone() };
                            let cond = &cl.body;
                            let decl: syn::Stmt = if item_ty.is_empty() { parse_quote!(let mut __vx_found = None;) } else {
                                let t: syn::Type = syn::parse_str(item_ty).unwrap_or(parse_quote!(_));
                                parse_quote!(let mut __vx_found: Option<#t> = None;)
                            };
                            repl = Some(parse_quote!({
                                #decl
                                for __vx_item in #recv.iter() {
                                    if __vx_found.is_none() {
                                        let #pat = &__vx_item;
                                        if #cond {
                                            __vx_found = Some(__vx_item);
                                        }
                                    }
                                }
                                __vx_found
                            }));
                        }
                    }
                }
            }
            if let Some(n) = repl {
                *e = n;
                self.applied.bump("E23-iter-find-as-early-stop-loop");
            }
        }
        if let Some(item_ty) = &self.rules.iter_max_by {
            // E29[=ItemType]: `X.iter().max_by(|PA, PB| BODY)` ==> `{ let mut __vx_best = None; for __vx_item in X.iter() { match __vx_best {
            // None => { __vx_best = Some(__vx_item); } Some(__vx_cur) => { let PA = __vx_cur; let PB = __vx_item; match BODY { Ordering::Greater => {}
            // _ => { __vx_best = Some(__vx_item); } } } } } __vx_best }` — std's `Iterator::max_by` is `reduce(|x, y| match compare(&x, &y) {
            // Ordering::Greater => x, _ => y })`: the accumulated item is the closure's first argument, the new item its second, and the new item
            // wins unless the accumulated one is strictly greater (so the last of several greatest items is returned). The closure's parameters are
            // references to the iterator's items, which for a slice iterator are references themselves; binding the patterns to the items directly
            // gives the same bindings (default binding modes see through both layers of reference).
            let mut repl: Option<Expr> = None;
            if let Expr::MethodCall(c2) = &*e {
                if c2.method == "max_by" && c2.args.len() == 1 {
                    if let (Expr::Closure(cl), Expr::MethodCall(c1)) = (&c2.args[0], &*c2.receiver) {
                        if c1.method == "iter" && c1.args.is_empty() && cl.inputs.len() == 2 {
                            let recv = &c1.receiver;
                            let pa = match &cl.inputs[0] { syn::Pat::Type(pt) => (*pt.pat).clone(), other => other.clone() };
                            let pb = match &cl.inputs[1] { syn::Pat::Type(pt) => (*pt.pat).clone(), other => other.clone() };
                            let body = &cl.body;
                            let decl: syn::Stmt = if item_ty.is_empty() { parse_quote!(let mut __vx_best = None;) } else {
                                let t: syn::Type = syn::parse_str(item_ty).unwrap_or(parse_quote!(_));
                                parse_quote!(let mut __vx_best: Option<#t> = None;)
                            };
                            repl = Some(parse_quote!({
                                #decl
                                for __vx_item in #recv.iter() {
                                    match __vx_best {
                                        None => { __vx_best = Some(__vx_item); }
                                        Some(__vx_cur) => {
                                            let #pa = __vx_cur;
                                            let #pb = __vx_item;
                                            match #body {
                                                std::cmp::Ordering::Greater => {}
                                                _ => { __vx_best = Some(__vx_item); }
                                            }
                                        }
                                    }
                                }
                                __vx_best
                            }));
                        }
                    }
                }
            }
            if let Some(n) = repl {
                *e = n;
                self.applied.bump("E29-iter-max-by-as-loop");
            }
        }
        if self.rules.ctor_as_fn {
            // E26: `X.map(Type::Variant)` (a tuple-variant constructor passed as a function) ==> `X.map(|__vx_a| Type::Variant(__vx_a))`
            if let Expr::MethodCall(mc) = e {
                if mc.method == "map" && mc.args.len() == 1 {
                    if let Expr::Path(pth) = &mc.args[0] {
                        if pth.path.segments.len() >= 2 && pth.path.segments.last().map(|x| x.ident.to_string().chars().next().map(|c| c.is_uppercase()).unwrap_or(false)).unwrap_or(false) {
                            let ctor = pth.clone();
                            mc.args[0] = parse_quote!(|__vx_a| #ctor(__vx_a));
                            self.applied.bump("E26-constructor-as-closure");
                        }
                    }
                }
            }
        }
        if let Some(elem_ty) = &self.rules.map_collect {
            // E24[=T]: `X.iter().map(|p| BODY).collect::<Vec<_>>()` ==> `{ let mut __vx_v = Vec::new(); for p in X.iter() { __vx_v.push(BODY); } __vx_v }`
            // (map/collect over a slice iterator is the loop that pushes each mapped item in order)
            let mut repl: Option<Expr> = None;
            if let Expr::MethodCall(c3) = &*e {
                if c3.method == "collect" && c3.args.is_empty() {
                    if let Expr::MethodCall(c2) = &*c3.receiver {
                        if c2.method == "map" && c2.args.len() == 1 {
                            if let (Expr::Closure(cl), Expr::MethodCall(c1)) = (&c2.args[0], &*c2.receiver) {
                                if c1.method == "iter" && c1.args.is_empty() && cl.inputs.len() == 1 {
                                    let recv = &c1.receiver;
                                    let pat = match &cl.inputs[0] { syn::Pat::Type(pt) => (*pt.pat).clone(), other => other.clone() };
                                    let body = &cl.body;
                                    let new_vec: Expr = if elem_ty.is_empty() { parse_quote!(Vec::new()) } else {
                                        let t: syn::Type = syn::parse_str(elem_ty).unwrap_or(parse_quote!(_));
                                        parse_quote!(Vec::<#t>::new())
                                    };
                                    repl = Some(parse_quote!({
                                        let mut __vx_v = #new_vec;
                                        for #pat in #recv.iter() {
                                            __vx_v.push(#body);
                                        }
                                        __vx_v
                                    }));
                                }
                            }
                        }
                    }
                }
            }
            if let Some(n) = repl {
                *e = n;
                self.applied.bump("E24-map-collect-as-loop");
            }
        }
        if self.rules.fmt_display {
            // E25: `format!("lit{}lit{name}…", args…)` whose placeholders are all plain `{}` / `{name}` (Display, no format spec) ==>
            // `{ let mut __vx_s = String::new(); __vx_s.push_str("lit"); __vx_s.push_str(&(arg).to_string()); … __vx_s }`
            // (what the macro does for Display arguments: the pieces in order; `{{` / `}}` are literal braces)
            if let Expr::Macro(m) = e {
                if last_seg(&m.mac.path) == "format" {
                    let parser = syn::punctuated::Punctuated::<Expr, syn::Token![,]>::parse_terminated;
                    if let Ok(args) = syn::parse::Parser::parse2(parser, m.mac.tokens.clone()) {
                        let mut it = args.into_iter();
                        if let Some(Expr::Lit(syn::ExprLit { lit: syn::Lit::Str(lit), .. })) = it.next() {
                            let rest: Vec<Expr> = it.collect();
                            let text = lit.value();
                            // `E25=<prefix>`: only the format strings that start with <prefix> are data; the others stay with rule E5 (messages)
                            let wanted = match &self.rules.fmt_display_only { Some(p) => text.starts_with(p.as_str()), None => true };
                            let mut pieces: Vec<Result<String, Expr>> = Vec::new();   // Ok(literal) / Err(argument expression)
                            let mut cur = String::new();
                            let mut next_pos = 0usize;
                            let mut ok = true;
                            let cs: Vec<char> = text.chars().collect();
                            let mut i = 0;
                            while i < cs.len() && ok {
                                match cs[i] {
                                    '{' if i + 1 < cs.len() && cs[i + 1] == '{' => { cur.push('{'); i += 2; }
                                    '}' if i + 1 < cs.len() && cs[i + 1] == '}' => { cur.push('}'); i += 2; }
                                    '{' => {
                                        let end = cs[i..].iter().position(|c| *c == '}');
                                        match end {
                                            None => ok = false,
                                            Some(off) => {
                                                let name: String = cs[i + 1..i + off].iter().collect();
                                                if !cur.is_empty() { pieces.push(Ok(std::mem::take(&mut cur))); }
                                                if name.is_empty() {
                                                    if next_pos < rest.len() { pieces.push(Err(rest[next_pos].clone())); next_pos += 1; } else { ok = false; }
                                                } else {
                                                    match syn::parse_str::<syn::Ident>(&name) {
                                                        Ok(id) => pieces.push(Err(parse_quote!(#id))),
                                                        Err(_) => ok = false,   // a format spec or a positional index: not handled
                                                    }
                                                }
                                                i += off + 1;
                                            }
                                        }
                                    }
                                    '}' => ok = false,
                                    c => { cur.push(c); i += 1; }
                                }
                            }
                            if !cur.is_empty() { pieces.push(Ok(cur)); }
                            if ok && wanted && next_pos == rest.len() {
                                let mut stmts: Vec<syn::Stmt> = vec![parse_quote!(let mut __vx_s = String::new();)];
                                for p in pieces {
                                    match p {
                                        Ok(l) => { let ls = syn::LitStr::new(&l, lit.span()); stmts.push(parse_quote!(__vx_s.push_str(#ls);)); }
                                        Err(a) => stmts.push(parse_quote!(__vx_s.push_str(&(#a).to_string());)),
                                    }
                                }
                                *e = parse_quote!({ #(#stmts)* __vx_s });
                                self.applied.bump("E25-display-format-as-push-sequence");
                                return;
                            }
                        }
                    }
                }
            }
        }
        if let Some(elem_ty) = &self.rules.filter_map_collect {
            // E21[=T]: `X.iter().filter_map(|p| BODY).collect()` ==> `{ let mut __vx_v = Vec::new(); for p in X.iter() { if let Some(__vx_y) = BODY
            // { __vx_v.push(__vx_y); } } __vx_v }` (filter_map/collect over a slice iterator is the loop that keeps the Some results in order)
            let mut repl: Option<Expr> = None;
            if let Expr::MethodCall(c3) = &*e {
                if c3.method == "collect" && c3.args.is_empty() {
                    if let Expr::MethodCall(c2) = &*c3.receiver {
                        if c2.method == "filter_map" && c2.args.len() == 1 {
                            if let (Expr::Closure(cl), Expr::MethodCall(c1)) = (&c2.args[0], &*c2.receiver) {
                                if c1.method == "iter" && c1.args.is_empty() && cl.inputs.len() == 1 {
                                    let recv = &c1.receiver;
                                    let pat = match &cl.inputs[0] { syn::Pat::Type(pt) => (*pt.pat).clone(), other => other.clone() };
                                    let body = &cl.body;
                                    let new_vec: Expr = if elem_ty.is_empty() { parse_quote!(Vec::new()) } else {
                                        let t: syn::Type = syn::parse_str(elem_ty).unwrap_or(parse_quote!(_));
                                        parse_quote!(Vec::<#t>::new())
                                    };
                                    repl = Some(parse_quote!({
                                        let mut __vx_v = #new_vec;
                                        for #pat in #recv.iter() {
                                            if let Some(__vx_y) = #body {
                                                __vx_v.push(__vx_y);
                                            }
                                        }
                                        __vx_v
                                    }));
                                }
                            }
                        }
                    }
                }
            }
            if let Some(n) = repl {
                *e = n;
                self.applied.bump("E21-filter-map-collect-as-loop");
            }
        }
        if let Some(fname) = &self.rules.cloned_collect_fn {
            // E17=<f>: `X.iter().cloned().collect()` ==> `<f>(X)` where <f> is a trusted function of the template returning the
            // vector of the items of a dependency-typed collection (here: the keys of the IndexMap-backed precedence order)
            let mut repl: Option<Expr> = None;
            if let Expr::MethodCall(c3) = &*e {
                if c3.method == "collect" && c3.args.is_empty() {
                    if let Expr::MethodCall(c2) = &*c3.receiver {
                        if c2.method == "cloned" && c2.args.is_empty() {
                            if let Expr::MethodCall(c1) = &*c2.receiver {
                                if c1.method == "iter" && c1.args.is_empty() {
                                    let recv = &c1.receiver;
                                    let f = format_ident!("{}", fname);
                                    repl = Some(parse_quote!(#f(#recv)));
                                }
                            }
                        }
                    }
                }
            }
            if let Some(n) = repl {
                *e = n;
                self.applied.bump("E17-iter-cloned-collect-as-vector");
            }
        }
        if self.rules.let_chains {
            if let Expr::If(ifx) = e {
                let mut conj: Vec<Expr> = Vec::new();
                flatten_and(&ifx.cond, &mut conj);
                let has_let = conj.iter().any(|c| matches!(c, Expr::Let(_)));
                if has_let && conj.len() > 1 {
                    if ifx.else_branch.is_none() {
                        // E10: `if a && let P = x && b { body }`  ==>  `if a { if let P = x { if b { body } } }` (no else branch: equivalent)
                        let mut body: Expr = Expr::Block(syn::ExprBlock { attrs: vec![], label: None, block: ifx.then_branch.clone() });
                        for c in conj.iter().rev() {
                            let inner = body;
                            let blk: Block = match inner {
                                Expr::Block(b) if b.label.is_none() => b.block,
                                other => parse_quote!({ #other }),
                            };
                            body = parse_quote!(if #c #blk);
                        }
                        *e = body;
                        self.applied.bump("E10-let-chain-nested");
                    } else if matches!(conj[0], Expr::Let(_)) && !conj[1..].iter().any(|c| matches!(c, Expr::Let(_))) {
                        // E10: `if let P = x && g { A } else { B }`  ==>  `match x { P if g => A, _ => B }`
                        if let Expr::Let(l) = &conj[0] {
                            let pat = &l.pat;
                            let scrut = &l.expr;
                            let guards = &conj[1..];
                            let then_b = &ifx.then_branch;
                            let else_e = &ifx.else_branch.as_ref().unwrap().1;
                            let new: Expr = parse_quote!(match #scrut { #pat if #(#guards)&&* => #then_b, _ => #else_e });
                            *e = new;
                            self.applied.bump("E10-let-chain-match-guard");
                        }
                    } else {
                        self.applied.warnings.push("E10: let chain with else and several lets is not rewritten".into());
                    }
                    return;
                }
            }
        }
        if self.rules.then_with {
            if let Expr::MethodCall(mc) = e {
                if mc.method == "then_with" && mc.args.len() == 1 {
                    if let Expr::Closure(c) = &mc.args[0] {
                        if c.inputs.is_empty() {
                            let recv = &mc.receiver;
                            let body = &c.body;
                            let new: Expr = parse_quote!(match #recv {
                                Ordering::Equal => #body,
                                __vx_o => __vx_o,
                            });
                            *e = new;
                            self.applied.bump("E4-then_with-inlined");
                            return;
                        }
                    }
                }
            }
        }
        if self.rules.fmt_spec {
            // E33: `format!("{:x}", X)` ==> `vx_format_lower_hex(X)` and `format!("{:0width$}", X, width = W)` ==> `vx_format_zero_padded(X, W)`: one placeholder
            // with a format spec and no literal text; the two functions are tagged assumptions of the unit stating what core::fmt documents for that spec
            if let Expr::Macro(m) = e {
                if last_seg(&m.mac.path) == "format" {
                    let parser = syn::punctuated::Punctuated::<Expr, syn::Token![,]>::parse_terminated;
                    if let Ok(args) = syn::parse::Parser::parse2(parser, m.mac.tokens.clone()) {
                        let args: Vec<Expr> = args.into_iter().collect();
                        let lit = args.first().and_then(|a| if let Expr::Lit(syn::ExprLit { lit: syn::Lit::Str(l), .. }) = a { Some(l.value()) } else { None });
                        let mut repl: Option<Expr> = None;
                        if let Some(text) = lit {
                            if text == "{:x}" && args.len() == 2 {
                                let x = &args[1];
                                repl = Some(parse_quote!(vx_format_lower_hex(#x)));
                            } else if text == "{:0width$}" && args.len() == 3 {
                                if let Expr::Assign(a) = &args[2] {
                                    if ts_string(&*a.left) == "width" {
                                        let (x, w) = (&args[1], &*a.right);
                                        repl = Some(parse_quote!(vx_format_zero_padded(#x, #w)));
                                    }
                                }
                            }
                        }
                        if let Some(r) = repl {
                            *e = r;
                            self.applied.bump("E33-format-with-spec-as-named-function");
                            return;
                        }
                    }
                }
            }
        }
        if self.rules.fmt_write {
            // E32: `write!(f, "{}", X)` / `write!(f, "{X}")` (one plain Display placeholder, no literal text, no format spec) ==>
            // `vx_write_display(f, &X)`: the macro expands to `f.write_fmt(format_args!("{}", X))`, which appends the Display text of X to the
            // formatter's output and returns its result; `vx_write_display` is the prelude function with exactly that contract
            if let Expr::Macro(m) = e {
                if last_seg(&m.mac.path) == "write" {
                    let parser = syn::punctuated::Punctuated::<Expr, syn::Token![,]>::parse_terminated;
                    if let Ok(args) = syn::parse::Parser::parse2(parser, m.mac.tokens.clone()) {
                        let args: Vec<Expr> = args.into_iter().collect();
                        let lit = args.get(1).and_then(|a| if let Expr::Lit(syn::ExprLit { lit: syn::Lit::Str(l), .. }) = a { Some(l.value()) } else { None });
                        if let (Some(dst), Some(text)) = (args.first(), lit) {
                            let mut repl: Option<Expr> = None;
                            if text == "{}" && args.len() == 3 {
                                let x = &args[2];
                                repl = Some(parse_quote!(vx_write_display(#dst, &(#x))));
                            } else if args.len() == 2 && text.starts_with('{') && text.ends_with('}') {
                                if let Ok(id) = syn::parse_str::<syn::Ident>(&text[1..text.len() - 1]) {
                                    repl = Some(parse_quote!(vx_write_display(#dst, &(#id))));
                                }
                            }
                            if let Some(r) = repl {
                                *e = r;
                                self.applied.bump("E32-write-one-display-placeholder");
                                return;
                            }
                        }
                    }
                }
            }
        }
        if self.rules.fmt_concat {
            // E20: `format!("{a}{b}…")` whose text is nothing but inline placeholders ==> `vx_format<N>(&a, &b, …)`; the unit declares that
            // function (concatenation of the Display texts) as a tagged assumption
            if let Expr::Macro(m) = e {
                if last_seg(&m.mac.path) == "format" {
                    if let Ok(lit) = syn::parse2::<syn::LitStr>(m.mac.tokens.clone()) {
                        let text = lit.value();
                        let mut names: Vec<syn::Ident> = Vec::new();
                        let mut rest = text.as_str();
                        let mut ok = !rest.is_empty();
                        while ok && !rest.is_empty() {
                            match (rest.strip_prefix('{'), rest.find('}')) {
                                (Some(_), Some(end)) => {
                                    let name = &rest[1..end];
                                    match syn::parse_str::<syn::Ident>(name) {
                                        Ok(id) => names.push(id),
                                        Err(_) => ok = false,
                                    }
                                    rest = &rest[end + 1..];
                                }
                                _ => ok = false,
                            }
                        }
                        if ok && !names.is_empty() {
                            let f = format_ident!("vx_format{}", names.len());
                            *e = parse_quote!(#f(#(&#names),*));
                            self.applied.bump("E20-format-of-placeholders-as-concat");
                            return;
                        }
                    }
                }
            }
        }
        if self.rules.msg_format {
            if let Expr::Macro(m) = e {
                if last_seg(&m.mac.path) == "format" {
                    *e = parse_quote!(verif_any_string());
                    self.applied.bump("E5-format-to-any-string");
                }
            }
        }
    }

    fn visit_expr_closure_mut(&mut self, c: &mut syn::ExprClosure) {
        visit_mut::visit_expr_closure_mut(self, c);
        if self.rules.closure_wildcards {
            // E11: a wildcard closure parameter `|_|` is given a name that the body cannot mention (Verus wants variables)
            let mut n: usize = 0;
            for p in c.inputs.iter_mut() {
                let is_wild = matches!(p, syn::Pat::Wild(_)) || matches!(p, syn::Pat::Type(pt) if matches!(*pt.pat, syn::Pat::Wild(_)));
                if is_wild {
                    let id = format_ident!("_vx_unused{}", n);
                    n += 1;
                    match p {
                        syn::Pat::Type(pt) => *pt.pat = parse_quote!(#id),
                        other => *other = parse_quote!(#id),
                    }
                    self.applied.bump("E11-closure-wildcard-named");
                }
            }
            // E30: a closure parameter that is a tuple / struct pattern (`|(tag, _)| B`) becomes a named parameter destructured by a `let` at the
            // start of the body (`|__vx_p0| { let (tag, _) = __vx_p0; B }`): closure parameter patterns are irrefutable, so this is what the
            // closure does (Verus accepts only variables as closure parameters)
            let mut lets: Vec<syn::Stmt> = Vec::new();
            for (k, p) in c.inputs.iter_mut().enumerate() {
                let inner: &mut syn::Pat = match p { syn::Pat::Type(pt) => &mut *pt.pat, other => other };
                if matches!(inner, syn::Pat::Tuple(_) | syn::Pat::TupleStruct(_) | syn::Pat::Struct(_)) {
                    let id = format_ident!("__vx_p{}", k);
                    let pat = inner.clone();
                    lets.push(parse_quote!(let #pat = #id;));
                    *inner = parse_quote!(#id);
                    self.applied.bump("E30-closure-pattern-parameter-as-let");
                }
            }
            if !lets.is_empty() {
                let body = (*c.body).clone();
                c.body = Box::new(parse_quote!({ #(#lets)* #body }));
            }
        }
    }

    fn visit_expr_for_loop_mut(&mut self, l: &mut syn::ExprForLoop) {
        visit_mut::visit_expr_for_loop_mut(self, l);
        if self.rules.split_loop {
            // E14: `for p in X.split(<char literal>) { B }` ==> `for p in vx_split_char(&X, <char literal>) { B }`
            // (the lazy str::Split iterator is replaced by the vector of its items: `split` is pure and the haystack is
            // immutably borrowed for the whole loop, so the loop sees the same items in the same order; vx_split_char
            // is a trusted prelude function whose body is `s.split(c).collect()`)
            let mut repl: Option<Expr> = None;
            if let Expr::MethodCall(mc) = &*l.expr {
                if mc.method == "split" && mc.args.len() == 1 && mc.turbofish.is_none() {
                    if let Expr::Lit(syn::ExprLit { lit: syn::Lit::Char(_), .. }) = &mc.args[0] {
                        let recv = &mc.receiver;
                        let arg = &mc.args[0];
                        repl = Some(parse_quote!(vx_split_char(&#recv, #arg)));
                    }
                }
            }
            if let Some(e) = repl {
                *l.expr = e;
                self.applied.bump("E14-split-loop-over-collected-parts");
            }
        }
        if self.rules.iter_mut_loop {
            // E28: `for P in X { B }` with X a plain variable holding `&mut Vec<T>` ==> `for P in X.iter_mut() { B }` — what
            // `impl IntoIterator for &mut Vec<T>` is defined as (std: `fn into_iter(self) -> IterMut<T> { self.iter_mut() }`); vstd specifies
            // iter_mut, not that IntoIterator impl. If X is not a mutable reference to a vector the rewritten text does not type-check (undecided).
            let is_plain_var = matches!(&*l.expr, Expr::Path(p) if p.path.get_ident().is_some());
            if is_plain_var {
                let e = (*l.expr).clone();
                *l.expr = parse_quote!(#e.iter_mut());
                self.applied.bump("E28-for-over-mut-vec-as-iter-mut");
            }
        }
        if self.rules.for_ref_skip {
            // E22: `for &P in E { B }` ==> `for __vx_r in E { let P = *__vx_r; B }` (Verus has no reference patterns; the pattern only copies
            // the item out of the reference), and `X.iter().skip(N)` as the iterated expression ==> `vx_skip_slice(&X, N).iter()` (the items of
            // a slice after the first N are the items of the sub-slice; vx_skip_slice is a trusted prelude function `&s[n.min(s.len())..]`)
            if let syn::Pat::Reference(pr) = &*l.pat {
                if pr.mutability.is_none() {
                    let inner = (*pr.pat).clone();
                    let first: syn::Stmt = parse_quote!(let #inner = *__vx_r;);
                    l.body.stmts.insert(0, first);
                    *l.pat = parse_quote!(__vx_r);
                    self.applied.bump("E22-reference-pattern-as-deref");
                }
            }
            let mut repl: Option<Expr> = None;
            if let Expr::MethodCall(outer) = &*l.expr {
                if outer.method == "skip" && outer.args.len() == 1 {
                    if let Expr::MethodCall(inner) = &*outer.receiver {
                        if inner.method == "iter" && inner.args.is_empty() {
                            let recv = &inner.receiver;
                            let n = &outer.args[0];
                            repl = Some(parse_quote!(vx_skip_slice(&#recv, #n).iter()));
                        }
                    }
                }
            }
            if let Some(e) = repl {
                *l.expr = e;
                self.applied.bump("E22-iter-skip-as-subslice");
            }
        }
        if let Some(fname) = &self.rules.enumerate_fn {
            // E16=<f>: `for P in X.iter().enumerate() { B }` ==> `for P in <f>(X) { B }` where <f> is a trusted function of the
            // template returning the vector of (index, item) pairs of a dependency-typed collection (here: IndexMap keys)
            let mut repl: Option<Expr> = None;
            if let Expr::MethodCall(outer) = &*l.expr {
                if outer.method == "enumerate" && outer.args.is_empty() {
                    if let Expr::MethodCall(inner) = &*outer.receiver {
                        if inner.method == "iter" && inner.args.is_empty() {
                            let recv = &inner.receiver;
                            let f = format_ident!("{}", fname);
                            repl = Some(parse_quote!(#f(#recv)));
                        }
                    }
                }
            }
            if let Some(e) = repl {
                *l.expr = e;
                self.applied.bump("E16-iter-enumerate-over-collected-pairs");
            }
        }
        if self.rules.tail_continue {
            tail_continue_block(&mut l.body, self.applied);
        }
        if self.rules.mid_continue {
            skip_flag_block(&mut l.body, self.applied, true);
        }
    }
}

/// does the statement contain an unlabeled `continue` that belongs to the enclosing loop?
struct SelfRename;
fn rename_self_tokens(ts: proc_macro2::TokenStream) -> proc_macro2::TokenStream {
    ts.into_iter()
        .map(|t| match t {
            proc_macro2::TokenTree::Ident(i) if i == "self" => {
                proc_macro2::TokenTree::Ident(proc_macro2::Ident::new("__vx_self", i.span()))
            }
            proc_macro2::TokenTree::Group(g) => {
                let mut ng = proc_macro2::Group::new(g.delimiter(), rename_self_tokens(g.stream()));
                ng.set_span(g.span());
                proc_macro2::TokenTree::Group(ng)
            }
            other => other,
        })
        .collect()
}
impl VisitMut for SelfRename {
    fn visit_ident_mut(&mut self, i: &mut proc_macro2::Ident) {
        if i == "self" {
            *i = proc_macro2::Ident::new("__vx_self", i.span());
        }
    }
    fn visit_macro_mut(&mut self, m: &mut syn::Macro) {
        m.tokens = rename_self_tokens(std::mem::take(&mut m.tokens));
    }
    fn visit_item_mut(&mut self, _i: &mut syn::Item) {}
}

struct ContinueFinder(bool);
impl<'ast> Visit<'ast> for ContinueFinder {
    fn visit_expr_continue(&mut self, c: &'ast syn::ExprContinue) {
        if c.label.is_none() {
            self.0 = true;
        }
    }
    fn visit_expr_for_loop(&mut self, _: &'ast syn::ExprForLoop) {}
    fn visit_expr_while(&mut self, _: &'ast syn::ExprWhile) {}
    fn visit_expr_loop(&mut self, _: &'ast syn::ExprLoop) {}
    fn visit_expr_closure(&mut self, _: &'ast syn::ExprClosure) {}
}

/// replace a `continue` that is the last statement of a (nested if/match/block) tail position by `__vx_skip = true`
fn flag_tail_continue(e: &mut Expr) {
    match e {
        Expr::Continue(c) if c.label.is_none() => *e = parse_quote!(__vx_skip = true),
        Expr::If(i) => {
            if let Some(Stmt::Expr(last, _)) = i.then_branch.stmts.last_mut() {
                flag_tail_continue(last);
            }
            if let Some((_, els)) = &mut i.else_branch {
                flag_tail_continue(els);
            }
        }
        Expr::Match(m) => {
            for arm in m.arms.iter_mut() {
                flag_tail_continue(&mut arm.body);
            }
        }
        Expr::Block(b) if b.label.is_none() => {
            if let Some(Stmt::Expr(last, _)) = b.block.stmts.last_mut() {
                flag_tail_continue(last);
            }
        }
        _ => {}
    }
}

/// E12: `for … { A; if c { B; continue; } R }`  ==>  `for … { let mut __vx_skip = false; A; if c { B; __vx_skip = true; } if !__vx_skip { R } }`
/// (Verus rejects `continue` inside `for`; the flag makes the remainder of the body conditional, which is what `continue` means.)
fn skip_flag_block(b: &mut Block, applied: &mut Applied, top: bool) {
    let n = b.stmts.len();
    let mut hit: Option<usize> = None;
    for (i, st) in b.stmts.iter().enumerate() {
        let mut f = ContinueFinder(false);
        f.visit_stmt(st);
        if f.0 {
            hit = Some(i);
            break;
        }
    }
    let Some(i) = hit else { return };
    if i + 1 == n {
        return; // a tail continue: rule E9's business
    }
    let mut si = b.stmts[i].clone();
    if let Stmt::Expr(e, _) = &mut si {
        flag_tail_continue(e);
    }
    let mut f = ContinueFinder(false);
    f.visit_stmt(&si);
    if f.0 {
        applied.warnings.push("E12: a `continue` is not the last statement of its branch; left as is".into());
        return;
    }
    let rest: Vec<Stmt> = b.stmts[i + 1..].to_vec();
    let mut rest_block: Block = parse_quote!({ #(#rest)* });
    skip_flag_block(&mut rest_block, applied, false);
    let mut out: Vec<Stmt> = Vec::new();
    if top {
        out.push(parse_quote!(let mut __vx_skip = false;));
    }
    out.extend(b.stmts[..i].iter().cloned());
    // make sure the rewritten statement ends with a semicolon (it is no longer last)
    if let Stmt::Expr(e, _) = si {
        out.push(Stmt::Expr(e, Some(Default::default())));
    } else {
        out.push(si);
    }
    let guarded: Expr = parse_quote!(if !__vx_skip #rest_block);
    out.push(Stmt::Expr(guarded, None));
    b.stmts = out;
    applied.bump("E12-mid-continue-flag");
}

fn flatten_and(e: &Expr, out: &mut Vec<Expr>) {
    match e {
        Expr::Binary(b) if matches!(b.op, syn::BinOp::And(_)) => {
            flatten_and(&b.left, out);
            flatten_and(&b.right, out);
        }
        Expr::Paren(p) => flatten_and(&p.expr, out),
        other => out.push(other.clone()),
    }
}

fn tail_continue_block(b: &mut Block, applied: &mut Applied) {
    if let Some(last) = b.stmts.last_mut() {
        match last {
            Stmt::Expr(e, _) => tail_continue_expr(e, applied),
            _ => {}
        }
    }
}

fn tail_continue_expr(e: &mut Expr, applied: &mut Applied) {
    match e {
        Expr::Continue(c) if c.label.is_none() => {
            *e = parse_quote!(());
            applied.bump("E9-tail-continue");
        }
        Expr::Match(m) => {
            for arm in m.arms.iter_mut() {
                tail_continue_expr(&mut arm.body, applied);
            }
        }
        Expr::If(i) => {
            tail_continue_block(&mut i.then_branch, applied);
            if let Some((_, els)) = &mut i.else_branch {
                tail_continue_expr(els, applied);
            }
        }
        Expr::Block(b) if b.label.is_none() => tail_continue_block(&mut b.block, applied),
        _ => {}
    }
}

/// Second pass: number loops / closures / returns in source pre-order and put
/// markers where the driver splices ghost text.
struct MarkVisitor<'a> {
    j: usize,
    loop_n: usize,
    closure_n: usize,
    return_n: usize,
    iters: BTreeMap<usize, String>,
    closures: BTreeMap<usize, Value>,
    closure_default: Option<Value>,
    // (anchor kind, index) -> proof ids
    proofs_loop_start: BTreeMap<usize, Vec<String>>,
    proofs_loop_end: BTreeMap<usize, Vec<String>>,
    proofs_loop_after: BTreeMap<usize, Vec<String>>,
    proofs_return: BTreeMap<usize, Vec<String>>,
    // text anchors: (before?, prefix, nth, id, hit counter)
    text_anchors: Vec<(bool, String, usize, String, usize, bool)>,
    loop_kinds: Vec<String>,
    errors: Vec<String>,
    _p: std::marker::PhantomData<&'a ()>,
}

impl<'a> MarkVisitor<'a> {
    fn pm(&self, id: &str) -> Stmt {
        marker_stmt(&format!("__VX_F{}_PROOF_{}__", self.j, id))
    }
    fn enter_loop(&mut self, kind: &str) -> usize {
        let k = self.loop_n;
        self.loop_n += 1;
        self.loop_kinds.push(kind.to_string());
        k
    }
    fn mark_loop_body(&mut self, k: usize, body: &mut Block) {
        // end markers first (so that indices of start do not shift them)
        if let Some(ids) = self.proofs_loop_end.get(&k).cloned() {
            // a loop body has type (): the block goes after its last statement
            let pos = body.stmts.len();
            if let Some(Stmt::Expr(_, semi @ None)) = body.stmts.last_mut() {
                *semi = Some(Default::default());
            }
            for (n, id) in ids.iter().enumerate() {
                body.stmts.insert(pos + n, self.pm(id));
            }
        }
        let mut pos = 0;
        body.stmts.insert(pos, marker_stmt(&format!("__VX_F{}_LOOP_{}__", self.j, k)));
        pos += 1;
        if let Some(ids) = self.proofs_loop_start.get(&k).cloned() {
            for id in ids {
                body.stmts.insert(pos, self.pm(&id));
                pos += 1;
            }
        }
    }
}

impl<'a> VisitMut for MarkVisitor<'a> {
    fn visit_block_mut(&mut self, b: &mut Block) {
        let old = std::mem::take(&mut b.stmts);
        let mut out: Vec<Stmt> = Vec::with_capacity(old.len());
        for mut s in old {
            // text anchors are matched on the statement as it is in the repository (after rules)
            let stext = norm(&ts_string(&s));
            let mut before_ids = Vec::new();
            let mut after_ids = Vec::new();
            for a in self.text_anchors.iter_mut() {
                if stext.starts_with(&a.1) {
                    if a.4 == a.2 {
                        if a.0 {
                            before_ids.push(a.3.clone());
                        } else {
                            after_ids.push(a.3.clone());
                        }
                        a.5 = true;
                    }
                    a.4 += 1;
                }
            }
            let loop_k = match &s {
                Stmt::Expr(Expr::ForLoop(_), _) | Stmt::Expr(Expr::While(_), _) | Stmt::Expr(Expr::Loop(_), _) => {
                    Some(self.loop_n)
                }
                _ => None,
            };
            self.visit_stmt_mut(&mut s);
            for id in before_ids {
                out.push(self.pm(&id));
            }
            let tail_expr = matches!(s, Stmt::Expr(_, None));
            out.push(s);
            if let Some(k) = loop_k {
                if let Some(ids) = self.proofs_loop_after.get(&k).cloned() {
                    for id in ids {
                        out.push(self.pm(&id));
                    }
                }
            }
            if !after_ids.is_empty() {
                if tail_expr {
                    self.errors.push("bad plan: `after:` anchor on a tail expression".into());
                }
                for id in after_ids {
                    out.push(self.pm(&id));
                }
            }
        }
        b.stmts = out;
    }

    fn visit_expr_for_loop_mut(&mut self, l: &mut syn::ExprForLoop) {
        let k = self.enter_loop("for");
        if let Some(name) = self.iters.get(&k) {
            let f = format_ident!("__vx_f{}_iter", self.j);
            let n = format_ident!("{}", name);
            let e = &l.expr;
            let new: Expr = parse_quote!(#f(#n, #e));
            *l.expr = new;
        }
        self.visit_expr_mut(&mut l.expr);
        self.visit_block_mut(&mut l.body);
        self.mark_loop_body(k, &mut l.body);
    }
    fn visit_expr_while_mut(&mut self, l: &mut syn::ExprWhile) {
        let k = self.enter_loop("while");
        self.visit_expr_mut(&mut l.cond);
        self.visit_block_mut(&mut l.body);
        self.mark_loop_body(k, &mut l.body);
    }
    fn visit_expr_loop_mut(&mut self, l: &mut syn::ExprLoop) {
        let k = self.enter_loop("loop");
        self.visit_block_mut(&mut l.body);
        self.mark_loop_body(k, &mut l.body);
    }
    fn visit_expr_closure_mut(&mut self, c: &mut syn::ExprClosure) {
        let k = self.closure_n;
        self.closure_n += 1;
        if let Some(spec) = self.closures.get(&k).cloned().or_else(|| self.closure_default.clone()) {
            if let Some(params) = spec["params"].as_str() {
                match syn::parse_str::<Expr>(&format!("|{}| ()", params)) {
                    Ok(Expr::Closure(pc)) => {
                        if pc.inputs.len() != c.inputs.len() {
                            self.errors.push(format!(
                                "lost anchor: closure {} has {} parameters, contract names {}",
                                k,
                                c.inputs.len(),
                                pc.inputs.len()
                            ));
                        } else {
                            // keep the repository's parameter pattern, add the contract's type
                            let mut new_inputs = syn::punctuated::Punctuated::new();
                            for (orig, typed) in c.inputs.iter().zip(pc.inputs.iter()) {
                                let orig_pat = match orig {
                                    syn::Pat::Type(pt) => (*pt.pat).clone(),
                                    o => o.clone(),
                                };
                                match typed {
                                    syn::Pat::Type(pt) => {
                                        if norm(&ts_string(&*pt.pat)) != norm(&ts_string(&orig_pat)) {
                                            self.errors.push(format!(
                                                "lost anchor: closure {} parameter `{}` is named `{}` in the contract",
                                                k,
                                                ts_string(&orig_pat),
                                                ts_string(&*pt.pat)
                                            ));
                                        }
                                        let ty = &pt.ty;
                                        let p: syn::Pat = syn::Pat::Type(syn::PatType {
                                            attrs: vec![],
                                            pat: Box::new(orig_pat),
                                            colon_token: Default::default(),
                                            ty: ty.clone(),
                                        });
                                        new_inputs.push(p);
                                    }
                                    _ => self.errors.push(format!("bad plan: closure {} params must be typed", k)),
                                }
                            }
                            c.inputs = new_inputs;
                        }
                    }
                    _ => self.errors.push(format!("bad plan: cannot parse closure params `{}`", params)),
                }
            }
            let rt = format_ident!("__VX_F{}_CRET_{}__", self.j, k);
            c.output = syn::ReturnType::Type(Default::default(), Box::new(parse_quote!(#rt)));
            if !matches!(&*c.body, Expr::Block(_)) {
                let body = &c.body;
                let nb: Expr = parse_quote!({ #body });
                *c.body = nb;
            }
        }
        self.visit_expr_mut(&mut c.body);
    }
    fn visit_expr_mut(&mut self, e: &mut Expr) {
        if let Expr::Return(_) = e {
            let k = self.return_n;
            self.return_n += 1;
            visit_mut::visit_expr_mut(self, e);
            if let Some(ids) = self.proofs_return.get(&k).cloned() {
                let ms: Vec<Stmt> = ids.iter().map(|id| self.pm(id)).collect();
                let inner = e.clone();
                let new: Expr = parse_quote!({ #(#ms)* #inner });
                *e = new;
            }
            return;
        }
        visit_mut::visit_expr_mut(self, e);
    }
}

/// E27: only `let x = e;` statements and a tail expression; no mutation, no early exit, no loop, no closure, no macro but `matches!`
fn pure_straightline(sig: &syn::Signature, block: &Block) -> bool {
    if sig.asyncness.is_some() || sig.unsafety.is_some() || sig.generics.type_params().next().is_some() {
        return false;
    }
    if matches!(sig.output, syn::ReturnType::Default) {
        return false;
    }
    for a in sig.inputs.iter() {
        match a {
            syn::FnArg::Receiver(r) => {
                if r.mutability.is_some() {
                    return false;
                }
            }
            syn::FnArg::Typed(t) => {
                let ty = norm(&ts_string(&t.ty));
                if ty.contains("&mut") || ty.contains("& mut") || ty.contains("impl ") {
                    return false;
                }
                match &*t.pat {
                    syn::Pat::Ident(pi) if pi.mutability.is_none() => {}
                    _ => return false,
                }
            }
        }
    }
    let n = block.stmts.len();
    if n == 0 {
        return false;
    }
    for (i, st) in block.stmts.iter().enumerate() {
        match st {
            Stmt::Local(l) => {
                if i == n - 1 {
                    return false;
                }
                match &l.init {
                    Some(init) if init.diverge.is_none() => {}
                    _ => return false,
                }
                let ok = match &l.pat {
                    syn::Pat::Ident(pi) => pi.mutability.is_none() && pi.by_ref.is_none(),
                    syn::Pat::Type(pt) => matches!(&*pt.pat, syn::Pat::Ident(pi) if pi.mutability.is_none() && pi.by_ref.is_none()),
                    _ => false,
                };
                if !ok {
                    return false;
                }
            }
            Stmt::Expr(_, None) if i == n - 1 => {}
            _ => return false,
        }
    }
    struct Bad(bool);
    impl<'ast> Visit<'ast> for Bad {
        fn visit_expr(&mut self, e: &'ast Expr) {
            match e {
                Expr::Try(_) | Expr::Return(_) | Expr::Loop(_) | Expr::While(_) | Expr::ForLoop(_) | Expr::Closure(_) | Expr::Assign(_)
                | Expr::Break(_) | Expr::Continue(_) | Expr::Unsafe(_) | Expr::Await(_) | Expr::Async(_) | Expr::Yield(_) => self.0 = true,
                Expr::Binary(b) if matches!(b.op, syn::BinOp::AddAssign(_) | syn::BinOp::SubAssign(_) | syn::BinOp::MulAssign(_)
                    | syn::BinOp::DivAssign(_) | syn::BinOp::RemAssign(_) | syn::BinOp::BitAndAssign(_) | syn::BinOp::BitOrAssign(_)
                    | syn::BinOp::BitXorAssign(_) | syn::BinOp::ShlAssign(_) | syn::BinOp::ShrAssign(_)) => self.0 = true,
                Expr::Reference(r) if r.mutability.is_some() => self.0 = true,
                Expr::Macro(m) if !m.mac.path.is_ident("matches") => self.0 = true,
                _ => {}
            }
            syn::visit::visit_expr(self, e);
        }
        fn visit_stmt(&mut self, s: &'ast Stmt) {
            if let Stmt::Macro(_) = s {
                self.0 = true;
            }
            syn::visit::visit_stmt(self, s);
        }
    }
    let mut b = Bad(false);
    b.visit_block(block);
    !b.0
}

struct CallCollector(BTreeSet<String>);
impl<'ast> Visit<'ast> for CallCollector {
    fn visit_expr_call(&mut self, c: &'ast syn::ExprCall) {
        if let Expr::Path(p) = &*c.func {
            self.0.insert(norm(&ts_string(&p.path)));
        }
        syn::visit::visit_expr_call(self, c);
    }
    fn visit_expr_method_call(&mut self, c: &'ast syn::ExprMethodCall) {
        self.0.insert(format!(".{}", c.method));
        syn::visit::visit_expr_method_call(self, c);
    }
    fn visit_macro(&mut self, m: &'ast syn::Macro) {
        self.0.insert(format!("{}!", norm(&ts_string(&m.path))));
    }
}

fn parse_idx_map(v: &Value) -> BTreeMap<usize, Value> {
    let mut m = BTreeMap::new();
    if let Some(o) = v.as_object() {
        for (k, val) in o {
            if let Ok(i) = k.parse::<usize>() {
                m.insert(i, val.clone());
            }
        }
    }
    m
}

fn transform_fn(
    sig: &mut syn::Signature,
    block: &mut Block,
    plan: &Value,
    j: usize,
    subst: &BTreeMap<String, String>,
) -> Result<Value, String> {
    let before = format!("{} {}", ts_string(sig), ts_string(block));
    let rule_list: Vec<String> = plan["rules"]
        .as_array()
        .map(|a| a.iter().filter_map(|x| x.as_str().map(String::from)).collect())
        .unwrap_or_default();
    let rules = Rules {
        fmt_spec: rule_list.iter().any(|r| r == "E33"),
        fmt_write: rule_list.iter().any(|r| r == "E32"),
        split_find: rule_list.iter().any(|r| r == "E19"),
        ctor_as_fn: rule_list.iter().any(|r| r == "E26"),
        map_collect: rule_list.iter().find_map(|r| if r == "E24" { Some(String::new()) } else { r.strip_prefix("E24=").map(String::from) }),
        fmt_display: rule_list.iter().any(|r| r == "E25" || r.starts_with("E25=")),
        fmt_display_only: rule_list.iter().find_map(|r| r.strip_prefix("E25=").map(String::from)),
        iter_find: rule_list.iter().find_map(|r| if r == "E23" { Some(String::new()) } else { r.strip_prefix("E23=").map(String::from) }),
        for_ref_skip: rule_list.iter().any(|r| r == "E22"),
        iter_max_by: rule_list.iter().find_map(|r| if r == "E29" { Some(String::new()) } else { r.strip_prefix("E29=").map(String::from) }),
        iter_mut_loop: rule_list.iter().any(|r| r == "E28"),
        filter_map_collect: rule_list.iter().find_map(|r| if r == "E21" { Some(String::new()) } else { r.strip_prefix("E21=").map(String::from) }),
        fmt_concat: rule_list.iter().any(|r| r == "E20"),
        split_map_collect: rule_list.iter().find_map(|r| if r == "E18" { Some(String::new()) } else { r.strip_prefix("E18=").map(String::from) }),
        cloned_collect_fn: rule_list.iter().find_map(|r| r.strip_prefix("E17=").map(String::from)),
        enumerate_fn: rule_list.iter().find_map(|r| r.strip_prefix("E16=").map(String::from)),
        impl_arg: rule_list.iter().any(|r| r == "E15"),
        split_loop: rule_list.iter().any(|r| r == "E14"),
        mut_self: rule_list.iter().any(|r| r == "E13"),
        mid_continue: rule_list.iter().any(|r| r == "E12"),
        closure_wildcards: rule_list.iter().any(|r| r == "E11"),
        let_chains: rule_list.iter().any(|r| r == "E10"),
        then_with: rule_list.iter().any(|r| r == "E4"),
        tail_continue: rule_list.iter().any(|r| r == "E9"),
        msg_format: rule_list.iter().any(|r| r == "E5"),
        drop_tracing: rule_list.iter().any(|r| r == "E5"),
    };
    if plan["assumed"].as_bool().unwrap_or(false) {
        // assumed contract: the signature is the repository's, the body is dropped (reported as an assumption)
        block.stmts.clear();
        block.stmts.push(Stmt::Expr(parse_quote!(unimplemented!()), None));
    }
    let mut applied = Applied::default();
    RuleVisitor { rules: &rules, applied: &mut applied }.visit_block_mut(block);
    if rules.impl_arg {
        // E15: `fn f(x: impl Tr)` ==> `fn f<VxImpl0: Tr>(x: VxImpl0)` (argument-position `impl Trait` is sugar for an anonymous
        // type parameter; naming it lets a contract mention the type)
        let mut k = 0usize;
        let mut new_params: Vec<syn::GenericParam> = Vec::new();
        for arg in sig.inputs.iter_mut() {
            if let syn::FnArg::Typed(pt) = arg {
                if let syn::Type::ImplTrait(it) = &*pt.ty {
                    let name = format_ident!("VxImpl{}", k);
                    let bounds = &it.bounds;
                    new_params.push(parse_quote!(#name: #bounds));
                    *pt.ty = parse_quote!(#name);
                    k += 1;
                }
            }
        }
        for gp in new_params {
            sig.generics.params.push(gp);
            applied.bump("E15-impl-trait-argument-named");
        }
    }
    if rules.mut_self {
        // E13: `fn f(mut self, ..) { B }` ==> `fn f(self, ..) { let mut __vx_self = self; B[self := __vx_self] }`
        // (a by-value `mut self` is only a mutable local binding of the receiver; Verus has no `mut self` parameters)
        let is_mut_self = matches!(sig.inputs.first(),
            Some(syn::FnArg::Receiver(r)) if r.reference.is_none() && r.mutability.is_some());
        if is_mut_self {
            if let Some(syn::FnArg::Receiver(r)) = sig.inputs.first_mut() {
                r.mutability = None;
            }
            SelfRename.visit_block_mut(block);
            block.stmts.insert(0, parse_quote!(let mut __vx_self = self;));
            applied.bump("E13-mut-self-rebound");
        }
    }
    if !subst.is_empty() {
        TypeSubst(subst).visit_signature_mut(sig);
        TypeSubst(subst).visit_block_mut(block);
    }
    {
        let mut pf = PathFlatten(0);
        pf.visit_signature_mut(sig);
        pf.visit_block_mut(block);
        for _ in 0..pf.0 {
            applied.bump("E3-path-flattened");
        }
    }
    let after = format!("{} {}", ts_string(sig), ts_string(block));
    let mut calls = CallCollector(BTreeSet::new());
    calls.visit_block(block);

    let mut mv = MarkVisitor {
        j,
        loop_n: 0,
        closure_n: 0,
        return_n: 0,
        iters: parse_idx_map(&plan["iters"])
            .into_iter()
            .filter_map(|(k, v)| v.as_str().map(|s| (k, s.to_string())))
            .collect(),
        closures: parse_idx_map(&plan["closures"]),
        closure_default: if plan["closure_default"].is_object() { Some(plan["closure_default"].clone()) } else { None },
        proofs_loop_start: BTreeMap::new(),
        proofs_loop_end: BTreeMap::new(),
        proofs_loop_after: BTreeMap::new(),
        proofs_return: BTreeMap::new(),
        text_anchors: Vec::new(),
        loop_kinds: Vec::new(),
        errors: Vec::new(),
        _p: std::marker::PhantomData,
    };
    let mut fn_start: Vec<String> = Vec::new();
    let mut fn_end: Vec<String> = Vec::new();
    for p in plan["proofs"].as_array().cloned().unwrap_or_default() {
        let at = p["at"].as_str().unwrap_or("").to_string();
        let id = p["id"].as_str().unwrap_or("").to_string();
        let parts: Vec<&str> = at.splitn(2, ':').collect();
        match parts[0] {
            "fn.start" => fn_start.push(id),
            "fn.end" => fn_end.push(id),
            "before" | "after" => {
                // before:<nth>:<prefix>
                let rest: Vec<&str> = parts.get(1).unwrap_or(&"").splitn(2, ':').collect();
                let nth: usize = rest[0].parse().map_err(|_| format!("bad plan: anchor `{}`", at))?;
                let prefix = norm(rest.get(1).unwrap_or(&""));
                mv.text_anchors.push((parts[0] == "before", prefix, nth, id, 0, false));
            }
            other => {
                let segs: Vec<&str> = other.split('.').collect();
                if segs.len() == 3 && segs[0] == "loop" {
                    let k: usize = segs[1].parse().map_err(|_| format!("bad plan: anchor `{}`", at))?;
                    let m = match segs[2] {
                        "start" => &mut mv.proofs_loop_start,
                        "end" => &mut mv.proofs_loop_end,
                        "after" => &mut mv.proofs_loop_after,
                        _ => return Err(format!("bad plan: anchor `{}`", at)),
                    };
                    m.entry(k).or_default().push(id);
                } else if segs.len() == 2 && segs[0] == "return" {
                    let k: usize = segs[1].parse().map_err(|_| format!("bad plan: anchor `{}`", at))?;
                    mv.proofs_return.entry(k).or_default().push(id);
                } else {
                    return Err(format!("bad plan: anchor `{}`", at));
                }
            }
        }
    }
    mv.visit_block_mut(block);
    let n_loops = mv.loop_n;
    let n_closures = mv.closure_n;
    let n_returns = mv.return_n;
    let loop_kinds = mv.loop_kinds.clone();
    // anchor sanity
    let mut errors: Vec<String> = std::mem::take(&mut mv.errors);
    for (k, _) in mv.iters.iter() {
        if *k >= n_loops {
            errors.push(format!("lost anchor: loop {} (function has {} loops)", k, n_loops));
        }
    }
    for m in [&mv.proofs_loop_start, &mv.proofs_loop_end, &mv.proofs_loop_after] {
        for (k, _) in m.iter() {
            if *k >= n_loops {
                errors.push(format!("lost anchor: loop {} (function has {} loops)", k, n_loops));
            }
        }
    }
    for (k, _) in mv.closures.iter() {
        if *k >= n_closures {
            errors.push(format!("lost anchor: closure {} (function has {} closures)", k, n_closures));
        }
    }
    for (k, _) in mv.proofs_return.iter() {
        if *k >= n_returns {
            errors.push(format!("lost anchor: return {} (function has {} returns)", k, n_returns));
        }
    }
    for a in mv.text_anchors.iter() {
        if !a.5 {
            errors.push(format!("lost anchor: no statement #{} starting with `{}`", a.2, a.1));
        }
    }
    drop(mv);
    if let Some(n) = plan["expect_loops"].as_u64() {
        if n as usize != n_loops {
            errors.push(format!("lost anchor: expected {} loops, function has {}", n, n_loops));
        }
    }
    if let Some(n) = plan["expect_closures"].as_u64() {
        if n as usize != n_closures {
            errors.push(format!("lost anchor: expected {} closures, function has {}", n, n_closures));
        }
    }
    if !errors.is_empty() {
        return Err(errors.join("; "));
    }

    // fn.end markers, then fn.start + FN marker
    {
        // a value-returning function keeps its tail expression last; a unit function gets the block appended
        let returns_value = !matches!(sig.output, syn::ReturnType::Default);
        let tail_is_expr = returns_value && matches!(block.stmts.last(), Some(Stmt::Expr(_, None)));
        let pos = if tail_is_expr { block.stmts.len() - 1 } else { block.stmts.len() };
        for (n, id) in fn_end.iter().enumerate() {
            block.stmts.insert(pos + n, marker_stmt(&format!("__VX_F{}_PROOF_{}__", j, id)));
        }
        let mut pos = 0;
        if plan["contract"].as_bool().unwrap_or(false) {
            block.stmts.insert(0, marker_stmt(&format!("__VX_F{}_FN__", j)));
            pos = 1;
        }
        for id in fn_start {
            block.stmts.insert(pos, marker_stmt(&format!("__VX_F{}_PROOF_{}__", j, id)));
            pos += 1;
        }
    }
    let mut ret_ty = String::new();
    if plan["ret"].as_str().is_some() {
        if let syn::ReturnType::Type(_, t) = &sig.output {
            let tt: TokenStream = t.to_token_stream();
            let f: syn::File = parse_quote!(type __T = #tt;);
            let s = prettyplease::unparse(&f);
            ret_ty = s.trim().trim_start_matches("type __T =").trim().trim_end_matches(';').trim().to_string();
            let rt = format_ident!("__VX_F{}_RET__", j);
            sig.output = syn::ReturnType::Type(Default::default(), Box::new(parse_quote!(#rt)));
        } else {
            return Err("lost anchor: contract names a result but the function returns ()".into());
        }
    }
    let mut params = Vec::new();
    for a in sig.inputs.iter() {
        params.push(ts_string(a));
    }
    let mut counts = Map::new();
    for (k, v) in applied.counts.iter() {
        counts.insert(k.clone(), json!(v));
    }
    let _ = quote!();
    Ok(json!({
        "name": sig.ident.to_string(),
        "j": j,
        "ret_ty": ret_ty,
        "params": params,
        "n_loops": n_loops,
        "loop_kinds": loop_kinds,
        "n_closures": n_closures,
        "n_returns": n_returns,
        "hash_before": fnv(&before),
        "hash_after": fnv(&after),
        "rules_applied": Value::Object(counts),
        "warnings": applied.warnings,
        "calls": calls.0.into_iter().collect::<Vec<_>>(),
    }))
}
