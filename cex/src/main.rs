//! cex — bounded counterexample search on the REAL zerv crate (path dependency on /repo, rebuilt from the working tree).
//!
//! This is not the deciding step of any check.  It is used (a) after the verifier has refused an obligation, to look
//! for a concrete failing input that is then part of the replay file, and (b) in the thorough tier on the unchanged
//! tree as a bounded cross-check that the executable copies of the specifications below agree with the real code
//! (labelled *bounded*, never counted as proved).  Each family mirrors the Verus spec functions of one unit.
//!
//! usage: cex <family>     exit 0: no disagreement in the bounded domain;  exit 1: `CEX …` lines printed

use std::cmp::Ordering;
use std::str::FromStr;

use zerv::utils::sanitize::Sanitizer;
use zerv::version::pep440::utils::LocalSegment;
use zerv::version::zerv::PreReleaseLabel;
use zerv::version::{BuildMetadata, PEP440, PreReleaseIdentifier, SemVer};

struct Out {
    found: usize,
    cases: u64,
    per_class: std::collections::BTreeMap<String, usize>,
    /// thorough tier: families add a seeded random exploration of a much larger universe to their exhaustive small domain
    thorough: bool,
    rng: u64,
}
impl Out {
    fn next(&mut self) -> u64 {
        // xorshift64*
        let mut x = self.rng;
        x ^= x >> 12;
        x ^= x << 25;
        x ^= x >> 27;
        self.rng = x;
        x.wrapping_mul(0x2545F4914F6CDD1D)
    }
    fn below(&mut self, n: usize) -> usize {
        (self.next() % (n.max(1) as u64)) as usize
    }
    fn pick<'a, T>(&mut self, xs: &'a [T]) -> &'a T {
        &xs[self.below(xs.len())]
    }
    fn text(&mut self, alphabet: &[char], max_len: usize) -> String {
        let n = self.below(max_len + 1);
        (0..n).map(|_| *self.pick(alphabet)).collect()
    }
    /// a message may start with `class=<name> `: the obligation the disagreement is reported under (5 lines are printed per class)
    fn cex(&mut self, fam: &str, msg: String) {
        let class = if msg.starts_with("class=") { msg.split(' ').next().unwrap_or("").to_string() } else { String::new() };
        let n = self.per_class.entry(class).or_insert(0);
        if *n < 5 {
            println!("CEX {fam} {msg}");
        }
        *n += 1;
        self.found += 1;
    }
}

// ------------------------------------------------------------------ semver_order

/// the text of an identifier, which is what SemVer 2.0.0 §11 talks about
fn sv_id_text(a: &PreReleaseIdentifier) -> String {
    match a {
        PreReleaseIdentifier::UInt(x) => x.to_string(),
        PreReleaseIdentifier::Str(x) => x.clone(),
    }
}
fn sv_numeric(t: &str) -> bool {
    !t.is_empty() && t.bytes().all(|b| b.is_ascii_digit())
}
/// numeric texts of any size by value: without leading zeros, the longer one is greater, equal lengths compare digit by digit
fn sv_num_cmp(a: &str, b: &str) -> Ordering {
    let (a, b) = (a.trim_start_matches('0'), b.trim_start_matches('0'));
    a.len().cmp(&b.len()).then(a.as_bytes().cmp(b.as_bytes()))
}
fn sv_id_prec(a: &PreReleaseIdentifier, b: &PreReleaseIdentifier) -> Ordering {
    let (x, y) = (sv_id_text(a), sv_id_text(b));
    match (sv_numeric(&x), sv_numeric(&y)) {
        (true, true) => sv_num_cmp(&x, &y),                  // "numeric by value"
        (true, false) => Ordering::Less,                     // "numeric below alphanumeric"
        (false, true) => Ordering::Greater,
        (false, false) => x.as_bytes().cmp(y.as_bytes()),    // ASCII / byte order
    }
}
fn sv_ids_prec(l: &[PreReleaseIdentifier], r: &[PreReleaseIdentifier]) -> Ordering {
    for i in 0..l.len().min(r.len()) {
        let o = sv_id_prec(&l[i], &r[i]);
        if o != Ordering::Equal {
            return o;
        }
    }
    l.len().cmp(&r.len())
}
fn sv_precedence(a: &SemVer, b: &SemVer) -> Ordering {
    if a.major != b.major {
        return a.major.cmp(&b.major);
    }
    if a.minor != b.minor {
        return a.minor.cmp(&b.minor);
    }
    if a.patch != b.patch {
        return a.patch.cmp(&b.patch);
    }
    // a version without pre-release identifiers is the release itself
    let pa = a.pre_release.as_deref().filter(|p| !p.is_empty());
    let pb = b.pre_release.as_deref().filter(|p| !p.is_empty());
    match (pa, pb) {
        (None, None) => Ordering::Equal,
        (None, Some(_)) => Ordering::Greater,
        (Some(_), None) => Ordering::Less,
        (Some(x), Some(y)) => sv_ids_prec(x, y),
    }
}
/// values outside the representation the parser yields for numbers that fit in u64: they get their own obligations
fn sv_class(a: &SemVer, b: &SemVer) -> &'static str {
    let empty = |v: &SemVer| matches!(&v.pre_release, Some(p) if p.is_empty());
    let num_text = |v: &SemVer| v.pre_release.as_ref().is_some_and(|p| p.iter().any(|i| matches!(i, PreReleaseIdentifier::Str(t) if sv_numeric(t))));
    if empty(a) || empty(b) {
        "class=empty-identifier-list "
    } else if num_text(a) || num_text(b) {
        "class=numeric-identifier-held-as-text "
    } else {
        ""
    }
}
fn semver_family(out: &mut Out) {
    let ids = vec![
        PreReleaseIdentifier::UInt(0),
        PreReleaseIdentifier::UInt(1),
        PreReleaseIdentifier::UInt(10),
        PreReleaseIdentifier::Str("a".into()),
        PreReleaseIdentifier::Str("B".into()),
        PreReleaseIdentifier::Str("b".into()),
        PreReleaseIdentifier::Str("RC".into()),
        PreReleaseIdentifier::Str("beta".into()),
        PreReleaseIdentifier::Str("1a".into()),
        PreReleaseIdentifier::Str("-".into()),
        // a label with a counter glued to it: ASCII order, not the counter's value
        PreReleaseIdentifier::Str("rc2".into()),
        PreReleaseIdentifier::Str("rc10".into()),
        PreReleaseIdentifier::Str("rc1a".into()),
        // numeric identifiers the parser keeps as text because they do not fit in u64, and the largest that does
        PreReleaseIdentifier::UInt(u64::MAX),
        PreReleaseIdentifier::Str("18446744073709551616".into()),
        PreReleaseIdentifier::Str("99999999999999999999".into()),
        PreReleaseIdentifier::Str("100000000000000000000".into()),
        PreReleaseIdentifier::Str("0a".into()),
        // what the public constructors allow: a small number held as text
        PreReleaseIdentifier::Str("1".into()),
        PreReleaseIdentifier::Str("007".into()),
    ];
    let mut pres: Vec<Option<Vec<PreReleaseIdentifier>>> = vec![None, Some(vec![])];
    for a in &ids {
        pres.push(Some(vec![a.clone()]));
        for b in &ids {
            pres.push(Some(vec![a.clone(), b.clone()]));
        }
    }
    pres.push(Some(vec![ids[1].clone(), ids[3].clone(), ids[0].clone()]));
    pres.push(Some(vec![ids[1].clone(), ids[3].clone(), ids[2].clone()]));
    let cores = [(0u64, 0u64, 0u64), (0, 0, 1), (0, 2, 0), (1, 0, 0), (1, 10, 2)];
    let builds = [None, Some(vec![BuildMetadata::UInt(7)]), Some(vec![BuildMetadata::Str("z".into())])];
    let mut vs: Vec<SemVer> = Vec::new();
    for (i, c) in cores.iter().enumerate() {
        for (j, p) in pres.iter().enumerate() {
            let mut v = SemVer::new(c.0, c.1, c.2);
            v.pre_release = p.clone();
            v.build_metadata = builds[(i + j) % builds.len()].clone();
            vs.push(v);
        }
    }
    for a in &vs {
        for b in &vs {
            out.cases += 1;
            let want = sv_precedence(a, b);
            let got = a.cmp(b);
            if got != want {
                out.cex("semver_order", format!("{}cmp({a:?}, {b:?}) = {got:?}, SemVer 2.0.0 precedence = {want:?}", sv_class(a, b)));
            }
            if a.partial_cmp(b) != Some(want) {
                out.cex("semver_order", format!("{}partial_cmp({a:?}, {b:?}) = {:?}, expected Some({want:?})", sv_class(a, b), a.partial_cmp(b)));
            }
            if (a == b) != (want == Ordering::Equal) {
                out.cex("semver_order", format!("{}({a:?} == {b:?}) = {}, but precedence = {want:?}", sv_class(a, b), a == b));
            }
        }
    }
    if out.thorough {
        // random exploration: identifiers over the full identifier alphabet, long lists, large numbers; pairs against the reference
        // precedence, triples for transitivity, and the greatest element of random lists
        let alpha: Vec<char> = "0123456789abcxyzABCXYZ-".chars().collect();
        let nums = [0u64, 1, 2, 9, 10, 11, 99, 100, 4294967295, 4294967296, u64::MAX - 1, u64::MAX];
        let make = |out: &mut Out| -> SemVer {
            let mut v = SemVer::new(*out.pick(&nums[..6]), *out.pick(&nums[..6]), *out.pick(&nums));
            if out.below(4) > 0 {
                let n = out.below(5);
                let mut ids = Vec::new();
                for _ in 0..n {
                    if out.below(3) == 0 {
                        ids.push(PreReleaseIdentifier::UInt(*out.pick(&nums)));
                    } else {
                        let mut t = out.text(&alpha, 4);
                        if t.is_empty() { t.push('a'); }
                        if out.below(6) == 0 { t = format!("{}{}", out.pick(&nums), out.below(1000)); }   // a numeric text, often above u64::MAX
                        ids.push(PreReleaseIdentifier::Str(t));
                    }
                }
                v.pre_release = Some(ids);
            }
            if out.below(3) == 0 {
                v.build_metadata = Some(vec![BuildMetadata::Str(out.text(&alpha, 3) + "b"), BuildMetadata::UInt(*out.pick(&nums))]);
            }
            v
        };
        let pool: Vec<SemVer> = (0..600).map(|_| make(out)).collect();
        for _ in 0..60000 {
            out.cases += 1;
            let (a, b, c) = (out.pick(&pool).clone(), out.pick(&pool).clone(), out.pick(&pool).clone());
            let want = sv_precedence(&a, &b);
            if a.cmp(&b) != want || a.partial_cmp(&b) != Some(want) || (a == b) != (want == Ordering::Equal) {
                out.cex("semver_order", format!("{}cmp({a}, {b}) = {:?}, == is {}, SemVer 2.0.0 precedence = {want:?}", sv_class(&a, &b), a.cmp(&b), a == b));
            }
            if a.cmp(&b) != b.cmp(&a).reverse() {
                out.cex("semver_order", format!("not antisymmetric: cmp({a}, {b}) = {:?}, cmp({b}, {a}) = {:?}", a.cmp(&b), b.cmp(&a)));
            }
            if a.cmp(&b) != Ordering::Greater && b.cmp(&c) != Ordering::Greater && a.cmp(&c) == Ordering::Greater {
                out.cex("semver_order", format!("not transitive: {a} <= {b} <= {c} but {a} > {c}"));
            }
        }
    }
}

// ------------------------------------------------------------------ pep440_order

fn label_rank(l: &PreReleaseLabel) -> i32 {
    match l {
        PreReleaseLabel::Alpha => 0,
        PreReleaseLabel::Beta => 1,
        PreReleaseLabel::Rc => 2,
    }
}
/// "numeric parts by value and below alphabetic parts", on the part's text (a number too large for u32 is kept as text and is still numeric)
fn seg_prec(a: &LocalSegment, b: &LocalSegment) -> Ordering {
    let text = |s: &LocalSegment| match s { LocalSegment::UInt(x) => x.to_string(), LocalSegment::Str(x) => x.to_lowercase() };
    let (x, y) = (text(a), text(b));
    match (sv_numeric(&x), sv_numeric(&y)) {
        (true, true) => sv_num_cmp(&x, &y),
        (true, false) => Ordering::Less,
        (false, true) => Ordering::Greater,
        (false, false) => x.cmp(&y),
    }
}
fn pep_key_prec(a: &PEP440, b: &PEP440) -> Ordering {
    if a.epoch != b.epoch {
        return a.epoch.cmp(&b.epoch);
    }
    let n = a.release.len().max(b.release.len());
    for i in 0..n {
        let x = a.release.get(i).copied().unwrap_or(0);
        let y = b.release.get(i).copied().unwrap_or(0);
        if x != y {
            return x.cmp(&y);
        }
    }
    let pr = |v: &PEP440| match &v.pre_label {
        Some(l) => (label_rank(l), v.pre_number.unwrap_or(0)),
        None => (3, 0),
    };
    if pr(a) != pr(b) {
        return pr(a).cmp(&pr(b));
    }
    let po = |v: &PEP440| if v.post_label.is_some() { (1, v.post_number.unwrap_or(0)) } else { (0, 0) };
    if po(a) != po(b) {
        return po(a).cmp(&po(b));
    }
    let de = |v: &PEP440| if v.dev_label.is_some() { (0, v.dev_number.unwrap_or(0)) } else { (1, 0) };
    if de(a) != de(b) {
        return de(a).cmp(&de(b));
    }
    match (&a.local, &b.local) {
        (None, None) => Ordering::Equal,
        (None, Some(_)) => Ordering::Less,
        (Some(_), None) => Ordering::Greater,
        (Some(x), Some(y)) => {
            for i in 0..x.len().min(y.len()) {
                let o = seg_prec(&x[i], &y[i]);
                if o != Ordering::Equal {
                    return o;
                }
            }
            x.len().cmp(&y.len())
        }
    }
}
fn pep440_family(out: &mut Out) {
    // incl. releases that are two or more numbers longer than another one, with a non-zero number inside the extra part and a final 0 (a padding test that
    // looks only at the last extra number shows only there: 1.0 vs 1.0.1.0, 2 vs 2.3.0)
    let releases: Vec<Vec<u32>> = vec![vec![1], vec![1, 0], vec![1, 0, 1], vec![1, 0, 0, 5], vec![1, 1], vec![2], vec![1, 0, 0], vec![1, 0, 1, 0], vec![2, 3, 0],
        vec![1, 0, 0, 5, 0, 0]];
    let pres = [None, Some((PreReleaseLabel::Alpha, None)), Some((PreReleaseLabel::Alpha, Some(0))), Some((PreReleaseLabel::Alpha, Some(1))),
                Some((PreReleaseLabel::Beta, Some(0))), Some((PreReleaseLabel::Rc, Some(2)))];
    let nums = [None, Some(None), Some(Some(0u32)), Some(Some(2u32))];
    let locals: Vec<Option<Vec<LocalSegment>>> = vec![
        None,
        Some(vec![LocalSegment::UInt(1)]),
        Some(vec![LocalSegment::Str("a".into())]),
        Some(vec![LocalSegment::Str("A".into())]),
        Some(vec![LocalSegment::UInt(1), LocalSegment::Str("b".into())]),
        Some(vec![LocalSegment::UInt(10)]),
        // numeric parts the parser keeps as text because they do not fit in u32
        Some(vec![LocalSegment::Str("9999999999".into())]),
        Some(vec![LocalSegment::Str("10000000000".into())]),
        Some(vec![LocalSegment::UInt(u32::MAX)]),
        Some(vec![LocalSegment::Str("0a".into())]),
        Some(vec![LocalSegment::UInt(1), LocalSegment::Str("4294967296".into())]),
        // numeric parts beyond u64 as well (a width change in the digits-only test shows only there), and a text starting with a smaller digit
        Some(vec![LocalSegment::Str("99999999999999999999".into())]),
        Some(vec![LocalSegment::Str("100000000000000000000".into())]),
        Some(vec![LocalSegment::Str("1a".into())]),
    ];
    let mut vs = Vec::new();
    for e in [0u32, 1] {
        for r in &releases {
            for p in &pres {
                for (pi, post) in nums.iter().enumerate() {
                    for (di, dev) in nums.iter().enumerate() {
                        // thin the product a little: keep all combinations of two of post/dev, sample the rest
                        if pi > 1 && di > 1 && (pi + di) % 2 == 1 {
                            continue;
                        }
                        let l = &locals[(pi + 2 * di + r.len()) % locals.len()];
                        let mut v = PEP440::new(r.clone()).with_epoch(e);
                        if let Some((lab, n)) = p {
                            v = v.with_pre_release(*lab, *n);
                        }
                        if let Some(n) = post {
                            v = v.with_post(*n);
                        }
                        if let Some(n) = dev {
                            v = v.with_dev(*n);
                        }
                        v.local = l.clone();
                        vs.push(v);
                    }
                }
            }
        }
    }
    for a in &vs {
        for b in &vs {
            out.cases += 1;
            let want = pep_key_prec(a, b);
            let got = a.cmp(b);
            if got != want {
                out.cex("pep440_order", format!("cmp({a}, {b}) = {got:?}, key order = {want:?}   [a={a:?} b={b:?}]"));
            }
            if (a == b) != (want == Ordering::Equal) {
                out.cex("pep440_order", format!("({a} == {b}) = {}, key order = {want:?}", a == b));
            }
        }
    }
    if out.thorough {
        let nums32 = [0u32, 1, 2, 9, 10, 11, 100, 4294967295];
        let labels = [PreReleaseLabel::Alpha, PreReleaseLabel::Beta, PreReleaseLabel::Rc];
        let alpha: Vec<char> = "0123456789abcxyzABC".chars().collect();
        let make = |out: &mut Out| -> PEP440 {
            let n = 1 + out.below(4);
            let mut v = PEP440::new((0..n).map(|_| *out.pick(&nums32[..6])).collect()).with_epoch(*out.pick(&nums32[..3]));
            if out.below(2) == 0 { v = v.with_pre_release(*out.pick(&labels), if out.below(3) == 0 { None } else { Some(*out.pick(&nums32)) }); }
            if out.below(2) == 0 { v = v.with_post(if out.below(3) == 0 { None } else { Some(*out.pick(&nums32)) }); }
            if out.below(2) == 0 { v = v.with_dev(if out.below(3) == 0 { None } else { Some(*out.pick(&nums32)) }); }
            if out.below(2) == 0 {
                let k = 1 + out.below(3);
                let mut segs = Vec::new();
                for _ in 0..k {
                    if out.below(2) == 0 { segs.push(LocalSegment::UInt(*out.pick(&nums32))); } else {
                        let mut t = out.text(&alpha, 3);
                        if t.is_empty() || t.chars().all(|c| c.is_ascii_digit()) { t.push('q'); }
                        segs.push(LocalSegment::Str(t));
                    }
                }
                v.local = Some(segs);
            }
            v
        };
        let pool: Vec<PEP440> = (0..600).map(|_| make(out)).collect();
        for _ in 0..60000 {
            out.cases += 1;
            let (a, b, c) = (out.pick(&pool).clone(), out.pick(&pool).clone(), out.pick(&pool).clone());
            let want = pep_key_prec(&a, &b);
            if a.cmp(&b) != want || (a == b) != (want == Ordering::Equal) {
                out.cex("pep440_order", format!("cmp({a}, {b}) = {:?}, == is {}, key order = {want:?}   [a={a:?} b={b:?}]", a.cmp(&b), a == b));
            }
            if a.cmp(&b) != b.cmp(&a).reverse() {
                out.cex("pep440_order", format!("not antisymmetric: cmp({a}, {b}) = {:?}, cmp({b}, {a}) = {:?}", a.cmp(&b), b.cmp(&a)));
            }
            if a.cmp(&b) != Ordering::Greater && b.cmp(&c) != Ordering::Greater && a.cmp(&c) == Ordering::Greater {
                out.cex("pep440_order", format!("not transitive: {a} <= {b} <= {c} but {a} > {c}"));
            }
        }
    }
}

// ------------------------------------------------------------------ sanitize

fn is_an(c: char) -> bool {
    c.is_ascii_alphanumeric()
}
/// "the maximal runs of ASCII letters and digits of the input, in order, joined by single separators"
fn rj(s: &str, d: char) -> String {
    let mut runs: Vec<String> = Vec::new();
    let mut cur = String::new();
    for c in s.chars() {
        if is_an(c) {
            cur.push(c);
        } else if !cur.is_empty() {
            runs.push(std::mem::take(&mut cur));
        }
    }
    if !cur.is_empty() {
        runs.push(cur);
    }
    runs.join(&d.to_string())
}
fn seg_fix(seg: &str) -> String {
    if !seg.is_empty() && seg.chars().all(|c| c.is_ascii_digit()) {
        let t = seg.trim_start_matches('0');
        if t.is_empty() { "0".to_string() } else { t.to_string() }
    } else {
        seg.to_string()
    }
}
fn zs(s: &str, d: char) -> String {
    s.split(d).map(seg_fix).collect::<Vec<_>>().join(&d.to_string())
}
fn is_sanitized(out: &str, d: char, lowercase: bool, keep_zeros: bool, max: Option<usize>) -> Result<(), String> {
    let cs: Vec<char> = out.chars().collect();
    if cs.iter().any(|c| !(is_an(*c) || *c == d)) {
        return Err("a character that is neither an ASCII letter/digit nor the separator".into());
    }
    if !cs.is_empty() && (cs[0] == d || cs[cs.len() - 1] == d) {
        return Err("leading or trailing separator".into());
    }
    if cs.windows(2).any(|w| w[0] == d && w[1] == d) {
        return Err("doubled separator".into());
    }
    if !keep_zeros && out.split(d).any(|seg| seg.len() > 1 && seg.starts_with('0') && seg.chars().all(|c| c.is_ascii_digit())) {
        return Err("all-digit segment with a leading zero".into());
    }
    if lowercase && cs.iter().any(|c| c.is_ascii_uppercase()) {
        return Err("upper-case letter although lower-casing was asked".into());
    }
    if let Some(m) = max {
        if cs.len() > m {
            return Err(format!("longer than max_length {m}"));
        }
    }
    Ok(())
}
fn sanitize_family(out: &mut Out) {
    let alphabet = ['a', 'B', '0', '1', '.', '-', '_', 'é', ' '];
    let mut inputs: Vec<String> = vec![String::new()];
    let mut frontier: Vec<String> = vec![String::new()];
    for _ in 0..5 {
        let mut next = Vec::new();
        for s in &frontier {
            for c in alphabet {
                let mut t = s.clone();
                t.push(c);
                next.push(t);
            }
        }
        inputs.extend(next.iter().cloned());
        frontier = next;
    }
    // a few long / unusual inputs beyond the exhaustive domain (numbers wider than u64/u128, fullwidth digits, long zero runs)
    for extra in ["018446744073709551616", "build/018446744073709551616", "0123456789012345678901234567890123456789",
                  "00000000000000000000000", "0018446744073709551615", "a.000340282366920938463463374607431768211456.b",
                  "０１２", "x/٠٠٧/y", "1..02", "a___b_c", "Ubuntu..20", "v1.2.3-RC.01+Build.007",
                  // characters whose Unicode lower case is (or contains) an ASCII letter: KELVIN SIGN, LATIN CAPITAL LETTER I WITH DOT ABOVE
                  "rate-10\u{212A}-Final", "v-007\u{212A}", "\u{212A}", "\u{0130}x", "A\u{0130}", "00\u{212A}1",
                  // a zero-led mixed segment at a cut position
                  "v-00x1", "Release/24_007abc", "ab-000c-d"] {
        inputs.push(extra.to_string());
    }
    for sep in [".", "-", "_"] {
        let d = sep.chars().next().unwrap();
        for lowercase in [false, true] {
            for keep_zeros in [false, true] {
                for max in [None, Some(1usize), Some(3), Some(4), Some(6), Some(13)] {
                    let san = Sanitizer::str(Some(sep), lowercase, keep_zeros, max);
                    for input in &inputs {
                        out.cases += 1;
                        let got = san.sanitize(input);
                        if let Err(why) = is_sanitized(&got, d, lowercase, keep_zeros, max) {
                            out.cex("sanitize", format!("Sanitizer::str(sep={sep:?}, lowercase={lowercase}, keep_zeros={keep_zeros}, max_length={max:?}).sanitize({input:?}) = {got:?}: {why}"));
                            continue;
                        }
                        {
                            let t = if lowercase { input.to_ascii_lowercase() } else { input.clone() };
                            let r = rj(&t, d);
                            let want = if keep_zeros { r } else { zs(&r, d) };
                            if max.is_none() && got != want {
                                out.cex("sanitize", format!("Sanitizer::str(sep={sep:?}, lowercase={lowercase}, keep_zeros={keep_zeros}, max_length=None).sanitize({input:?}) = {got:?}, runs joined = {want:?}"));
                            }
                            // "returns the maximal runs … joined by single separators … and at most max_length characters": when the joined runs fit, they are the answer
                            if let Some(m) = max {
                                if want.chars().count() <= m && got != want {
                                    out.cex("sanitize", format!("class=max-length-cut-before-cleanup Sanitizer::str(sep={sep:?}, lowercase={lowercase}, keep_zeros={keep_zeros}, max_length={m}).sanitize({input:?}) = {got:?}, but the runs joined, {want:?}, fit in {m} characters"));
                                }
                            }
                        }
                        let again = san.sanitize(&got);
                        if again != got {
                            out.cex("sanitize", format!("not idempotent: sanitize({input:?}) = {got:?}, sanitize of that = {again:?} (sep={sep:?}, lowercase={lowercase}, keep_zeros={keep_zeros}, max_length={max:?})"));
                        }
                    }
                }
            }
        }
    }
    // integer sanitiser (inputs without surrounding whitespace: the whitespace case is a recorded known finding)
    let uint = Sanitizer::uint();
    for input in &inputs {
        if input.trim() != input {
            continue;
        }
        out.cases += 1;
        let got = uint.sanitize(input);
        let want = if !input.is_empty() && input.chars().all(|c| c.is_ascii_digit()) { seg_fix(input) } else { String::new() };
        if got != want {
            out.cex("sanitize", format!("Sanitizer::uint().sanitize({input:?}) = {got:?}, expected {want:?}"));
        }
    }
    if out.thorough {
        // random Unicode-heavy inputs up to length 24 under random settings
        let alphabet: Vec<char> = "aZ09.-_/ +é٣Ｋſ\u{212a}İ日\t#0".chars().collect();
        for _ in 0..120000 {
            out.cases += 1;
            let input = out.text(&alphabet, 24);
            let sep = *out.pick(&[".", "-", "_"]);
            let d = sep.chars().next().unwrap();
            let (lowercase, keep_zeros) = (out.below(2) == 0, out.below(2) == 0);
            let max = *out.pick(&[None, None, Some(1usize), Some(2), Some(5), Some(9), Some(40)]);
            let san = Sanitizer::str(Some(sep), lowercase, keep_zeros, max);
            let got = san.sanitize(&input);
            if let Err(why) = is_sanitized(&got, d, lowercase, keep_zeros, max) {
                out.cex("sanitize", format!("Sanitizer::str(sep={sep:?}, lowercase={lowercase}, keep_zeros={keep_zeros}, max_length={max:?}).sanitize({input:?}) = {got:?}: {why}"));
                continue;
            }
            if max.is_none() {
                let t = if lowercase { input.to_ascii_lowercase() } else { input.clone() };
                let r = rj(&t, d);
                let want = if keep_zeros { r } else { zs(&r, d) };
                if got != want {
                    out.cex("sanitize", format!("Sanitizer::str(sep={sep:?}, lowercase={lowercase}, keep_zeros={keep_zeros}, max_length=None).sanitize({input:?}) = {got:?}, runs joined = {want:?}"));
                }
            }
            if san.sanitize(&got) != got {
                out.cex("sanitize", format!("not idempotent: sanitize({input:?}) = {got:?} (sep={sep:?}, lowercase={lowercase}, keep_zeros={keep_zeros}, max_length={max:?})"));
            }
        }
    }
}


// ------------------------------------------------------------------ convert_roundtrip (C07)
// The conversions SemVer <-> Zerv <-> PEP 440 (the From impls `zerv render` uses), against the shapes written in the statement.
fn convert_roundtrip_family(out: &mut Out) {
    use zerv::version::zerv::Zerv;
    let fam = "convert_roundtrip";
    let nums: Vec<u64> = if out.thorough { vec![0, 1, 2, 7, 10, 99, 4294967295] } else { vec![0, 1, 10, 4294967295] };
    let cores: Vec<(u64, u64, u64)> = vec![(0, 0, 0), (1, 2, 3), (10, 0, 7), (4294967295, 4294967295, 4294967295)];
    let labels = [("alpha", "a"), ("beta", "b"), ("rc", "rc")];
    let builds: Vec<Option<&str>> = vec![None, Some("build"), Some("ubuntu.20.4"), Some("a1.b2.7"), Some("g1a2b3c4")];
    // every canonical shape: X.Y.Z[-[epoch.E.][label.N.][post.P.][dev.D]][+ids], E >= 1
    let mut shapes: Vec<(String, String)> = Vec::new();   // (semver text, pep440 text)
    for &(x, y, z) in &cores {
        for e in [None, Some(1u64), Some(4294967295)] {
            for pre in [None, Some(0usize), Some(1), Some(2)] {
                for &n in &nums {
                    if pre.is_none() && n != nums[0] { continue; }
                    for p in [None, Some(0u64), Some(5), Some(4294967295)] {
                        for d in [None, Some(0u64), Some(3), Some(4294967295)] {
                            for (bi, b) in builds.iter().enumerate() {
                                // thin the product: all builds only for the small corner
                                if bi > 1 && !(e.is_none() && p.is_none()) { continue; }
                                let mut ids: Vec<String> = Vec::new();
                                let mut pep = String::new();
                                if let Some(e) = e { ids.push(format!("epoch.{e}")); pep.push_str(&format!("{e}!")); }
                                pep.push_str(&format!("{x}.{y}.{z}"));
                                if let Some(l) = pre { ids.push(format!("{}.{n}", labels[l].0)); pep.push_str(&format!("{}{n}", labels[l].1)); }
                                if let Some(p) = p { ids.push(format!("post.{p}")); pep.push_str(&format!(".post{p}")); }
                                if let Some(d) = d { ids.push(format!("dev.{d}")); pep.push_str(&format!(".dev{d}")); }
                                let mut sv = format!("{x}.{y}.{z}");
                                if !ids.is_empty() { sv.push('-'); sv.push_str(&ids.join(".")); }
                                if let Some(b) = b { sv.push('+'); sv.push_str(b); pep.push('+'); pep.push_str(b); }
                                shapes.push((sv, pep));
                            }
                        }
                    }
                }
            }
        }
    }
    for (sv_text, pep_text) in &shapes {
        out.cases += 1;
        let Ok(sv) = SemVer::from_str(sv_text) else { out.cex(fam, format!("canonical SemVer shape {sv_text:?} is rejected by the SemVer parser")); continue; };
        let z: Zerv = sv.clone().into();
        let back = SemVer::from(z.clone()).to_string();
        if &back != sv_text {
            out.cex(fam, format!("class=semver-not-unchanged {sv_text:?} -> Zerv -> SemVer prints {back:?}"));
        }
        let pep = PEP440::from(z).to_string();
        if &pep != pep_text {
            out.cex(fam, format!("class=semver-to-pep440 {sv_text:?} -> Zerv -> PEP 440 prints {pep:?}, expected {pep_text:?}"));
            continue;
        }
        let Ok(p) = PEP440::from_str(&pep) else { out.cex(fam, format!("{pep:?} (rendered from {sv_text:?}) is rejected by the PEP 440 parser")); continue; };
        let z2: Zerv = p.into();
        let again = SemVer::from(z2.clone()).to_string();
        if &again != sv_text {
            out.cex(fam, format!("class=pep440-back-to-semver {sv_text:?} -> PEP 440 {pep:?} -> SemVer prints {again:?}"));
        }
        let pep2 = PEP440::from(z2).to_string();
        if pep2 != pep {
            out.cex(fam, format!("class=pep440-not-fixed-point {pep:?} re-converts to {pep2:?}"));
        }
    }
    // SemVer-only paths: numbers up to u64::MAX ("u64 for SemVer-only paths")
    for text in ["4294967296.2.3", "1.4294967296.3", "1.2.4294967296", "18446744073709551615.18446744073709551615.18446744073709551615",
                 "1.2.3-epoch.4294967296", "1.2.3-rc.18446744073709551615", "1.2.3-post.4294967296.dev.18446744073709551615",
                 "4294967296.0.0-alpha.4294967296+build.4294967296", "1.2.3+18446744073709551615"] {
        out.cases += 1;
        let Ok(sv) = SemVer::from_str(text) else { out.cex(fam, format!("canonical SemVer shape {text:?} is rejected by the SemVer parser")); continue; };
        let z: Zerv = sv.into();
        let back = SemVer::from(z).to_string();
        if back != text {
            out.cex(fam, format!("class=semver-not-unchanged {text:?} -> Zerv -> SemVer prints {back:?}"));
        }
    }
    // accepted PEP 440 strings: fixed point of re-conversion; with at most three release numbers: to SemVer and back to an equal version
    let mut peps: Vec<String> = Vec::new();
    for rel in ["1", "1.2", "1.2.3", "0.0.0", "1.2.3.4", "1.0.0.0.5", "4294967295.0.1"] {
        for e in ["", "1!", "4294967295!"] {
            for pre in ["", "a0", "a1", "b2", "rc3", "alpha4", "c5", "pre6", "preview7", "A1", "a", "rc"] {
                for post in ["", ".post0", ".post5", "-7", ".rev2", ".r3", "post4", ".post"] {
                    for dev in ["", ".dev0", ".dev3", "dev4", ".dev"] {
                        for loc in ["", "+local", "+ubuntu.20.4", "+Ab-01_c", "+7", "+4294967296", "+a.007"] {
                            if (pre.len() > 0) as u8 + (post.len() > 0) as u8 + (dev.len() > 0) as u8 + (loc.len() > 0) as u8 > 2 && !out.thorough && rel != "1.2.3" { continue; }
                            peps.push(format!("{e}{rel}{pre}{post}{dev}{loc}"));
                        }
                    }
                }
            }
        }
    }
    for text in &peps {
        out.cases += 1;
        let Ok(p) = PEP440::from_str(text) else { continue; };
        let shown = p.to_string();
        let z: Zerv = p.clone().into();
        let r1 = PEP440::from(z.clone());
        if r1.to_string() != shown {
            out.cex(fam, format!("class=pep440-not-fixed-point {text:?} prints {shown:?}, through Zerv {:?}", r1.to_string()));
            continue;
        }
        if r1 != p {
            out.cex(fam, format!("class=pep440-not-fixed-point {text:?} -> Zerv -> PEP 440 is not equal to the original under =="));
        }
        let sv = SemVer::from(z);
        let sv_text = sv.to_string();
        match SemVer::from_str(&sv_text) {
            Err(e) => out.cex(fam, format!("class=semver-rendering-rejected {text:?} renders to SemVer {sv_text:?}, which the SemVer parser rejects: {e}")),
            Ok(sv2) => {
                let z2: Zerv = sv2.into();
                let sv_again = SemVer::from(z2.clone()).to_string();
                if sv_again != sv_text {
                    out.cex(fam, format!("class=semver-rendering-not-fixed-point {text:?} renders to SemVer {sv_text:?}, which re-converts to {sv_again:?}"));
                }
                if p.release.len() <= 3 {
                    let back = PEP440::from(z2);
                    if back != p {
                        out.cex(fam, format!("class=pep440-via-semver-not-equal {text:?} ({shown:?}) -> SemVer {sv_text:?} -> PEP 440 {:?}, not an equal version", back.to_string()));
                    }
                }
            }
        }
    }
    // "a numeric field is never silently replaced by another number - a value that cannot be represented is rejected": SemVer -> PEP 440 with numbers above u32::MAX
    for (field, text) in [("epoch", "1.2.3-epoch.4294967296"), ("post", "1.2.3-post.4294967296"), ("dev", "1.2.3-dev.4294967296"),
                          ("pre-release number", "1.2.3-rc.4294967296"), ("major", "4294967296.2.3"), ("patch", "1.2.4294967296"), ("post", "1.2.3-post.18446744073709551615")] {
        out.cases += 1;
        let Ok(sv) = SemVer::from_str(text) else { continue; };
        let z: Zerv = sv.into();
        let res = std::panic::catch_unwind(|| PEP440::from(z).to_string());
        if let Ok(pep) = res {
            out.cex(fam, format!("class=number-above-u32-max-silently-changed SemVer {text:?} ({field} above 2^32-1) converts to PEP 440 {pep:?} instead of being rejected"));
        }
    }
    // "a numeric field is never silently replaced by another number - a value that cannot be represented is rejected": SemVer texts with a core number
    // the u64 fields cannot hold are either refused or read back unchanged
    for text in ["18446744073709551616.0.0", "1.18446744073709551616.3", "1.2.18446744073709551616-rc.1", "1.2.99999999999999999999999+b"] {
        out.cases += 1;
        if let Ok(v) = SemVer::from_str(text) {
            if v.to_string() != text {
                out.cex(fam, format!("class=semver-core-number-silently-changed SemVer text {text:?} is accepted and reads back as {:?}", v.to_string()));
            }
        }
    }
}

// ------------------------------------------------------------------ branch rules

fn rule_matches(pattern: &str, branch: &str) -> bool {
    if pattern == "*" {
        !branch.is_empty()
    } else if let Some(dir) = pattern.strip_suffix('*').filter(|d| d.ends_with('/')) {
        branch.starts_with(dir) && branch.len() > dir.len()
    } else {
        pattern == branch
    }
}
fn branch_family(out: &mut Out) {
    use zerv::cli::flow::branch_rules::{BranchRule, PostMode, PreReleaseLabel as L};
    let patterns = ["*", "release/*", "develop", "a/*", "/*", "rel/ease/*", "é/*", "team/7/*", "v2/*", "9/*"];
    let branches = ["", "release", "releases", "release/", "release/1", "release/x/12", "release-x/7", "develop", "developer", "a/b", "a", "/x",
                    "rel/ease/3", "rel/ease", "é/1", "éx/1", "*", "release/*", "release/+3", "feature/+7/login", "release/99999999999/3",
                    "release/007/x", "release/-1", "release/1a/2", "a/٣/4", "release//5", "release/4294967295", "release/4294967296/1",
                    "fix/日本語", "releas日/1", "a日", "日", "日本", "rel/eas日本", "éé", "x日/1",
                    // a digit segment inside the prefix must not be taken for the number ("first all-digit path segment after the prefix")
                    "team/7/feature/3", "team/7/x", "team/7/", "v2/12/y", "v2/x", "9/8", "9/x/1"];
    for p in patterns {
        for b in branches {
            out.cases += 1;
            let rule = BranchRule { pattern: p.to_string(), pre_release_label: L::Alpha, pre_release_num: None, post_mode: PostMode::Commit };
            let got = rule.matches(b);
            let want = rule_matches(p, b);
            if got != want {
                out.cex("branch_rules", format!("BranchRule{{pattern:{p:?}}}.matches({b:?}) = {got}, pattern semantics of the statement = {want}"));
            }
            // explicit number wins; otherwise first all-digit segment after the prefix
            let rule_n = BranchRule { pattern: p.to_string(), pre_release_label: L::Alpha, pre_release_num: Some(7), post_mode: PostMode::Commit };
            if rule_n.resolve_for_branch(b).pre_release_num != Some(7) {
                out.cex("branch_rules", format!("explicit rule number lost for pattern {p:?}, branch {b:?}"));
            }
            if want && (p.ends_with("/*") || p == "*") {
                let after = if p == "*" { b } else { &b[p.len() - 1..] };
                let want_n = after.split('/').find(|s| !s.is_empty() && s.chars().all(|c| c.is_ascii_digit())).and_then(|s| s.parse::<u32>().ok());
                let got_n = rule.resolve_for_branch(b).pre_release_num;
                if got_n != want_n {
                    out.cex("branch_rules", format!("number for pattern {p:?}, branch {b:?} = {got_n:?}, expected {want_n:?}"));
                }
            }
        }
    }
}

fn branch_rules_sets(out: &mut Out) {
    use zerv::cli::flow::args::branch_rules::BranchRulesConfig;
    use zerv::cli::flow::branch_rules::{BranchRule, BranchRules, PostMode, PreReleaseLabel as L};
    use zerv::version::zerv::{Zerv, ZervSchema, ZervVars};
    let mk = |p: &str, l: L, n: Option<u32>, m: PostMode| BranchRule { pattern: p.to_string(), pre_release_label: l, pre_release_num: n, post_mode: m };
    let sets: Vec<Vec<BranchRule>> = vec![
        vec![mk("develop", L::Beta, Some(1), PostMode::Commit), mk("release/*", L::Rc, None, PostMode::Tag), mk("*", L::Alpha, None, PostMode::Commit)],
        vec![mk("*", L::Alpha, None, PostMode::Commit), mk("release/*", L::Rc, None, PostMode::Tag)],
        vec![mk("release/*", L::Rc, None, PostMode::Tag), mk("release/1/*", L::Beta, None, PostMode::Commit)],
        vec![mk("main", L::Rc, Some(9), PostMode::Tag)],
        // an exact rule listed after a wildcard that already matches the same name: the earlier rule wins
        vec![mk("release/*", L::Rc, None, PostMode::Tag), mk("release/hotfix", L::Beta, Some(4), PostMode::Commit), mk("*", L::Alpha, None, PostMode::Commit)],
        vec![mk("*", L::Alpha, None, PostMode::Commit), mk("main", L::Rc, Some(9), PostMode::Tag)],
        vec![],
    ];
    let branches = ["", "develop", "developer", "release/1", "release/1/2", "releases", "main", "feature/7", "é/1", "release/hotfix"];
    for set in &sets {
        let rules = match BranchRules::new(set.clone()) { Ok(r) => r, Err(_) => continue };
        for b in branches {
            out.cases += 1;
            // "the first matching rule"
            let want = set.iter().find(|r| rule_matches(&r.pattern, b));
            let got = rules.find_rule(b);
            if got.map(|r| &r.pattern) != want.map(|r| &r.pattern) {
                out.cex("branch_rules", format!("find_rule({b:?}) over patterns {:?} = {:?}, first matching rule = {:?}",
                    set.iter().map(|r| r.pattern.clone()).collect::<Vec<_>>(), got.map(|r| r.pattern.clone()), want.map(|r| r.pattern.clone())));
            }
            let res = rules.resolve_for_branch(Some(b));
            let (wl, wm) = match want { Some(r) => (r.pre_release_label.clone(), r.post_mode.clone()), None => (L::Alpha, PostMode::Commit) };
            if res.pre_release_label != wl || res.post_mode != wm {
                out.cex("branch_rules", format!("resolve_for_branch({b:?}) gives label {:?} / mode {:?}, first matching rule gives {:?} / {:?}", res.pre_release_label, res.post_mode, wl, wm));
            }
            // "pre-release label and number taken from explicit flags or else the first matching rule"
            for (fl, fnum, fmode) in [(None, None, None), (Some("rc".to_string()), Some(42u32), Some("tag".to_string())), (None, Some(5u32), None),
                                      (Some("beta".to_string()), None, None), (None, None, Some("tag".to_string())), (Some("rc".to_string()), None, Some("commit".to_string()))] {
                out.cases += 1;
                let mut cfg = BranchRulesConfig { pre_release_label: fl.clone(), pre_release_num: fnum, post_mode: fmode.clone(), branch_rules: rules.clone() };
                let vars = ZervVars { major: Some(1), bumped_branch: if b.is_empty() { None } else { Some(b.to_string()) }, ..Default::default() };
                let z = Zerv::new(ZervSchema::semver_default().unwrap(), vars).unwrap();
                if cfg.apply_branch_rules(&z).is_err() { continue; }
                let want_rule = if b.is_empty() { None } else { want };
                let wl2 = fl.clone().unwrap_or_else(|| want_rule.map(|r| r.pre_release_label.to_string().to_string()).unwrap_or("alpha".to_string()));
                let wm2 = fmode.clone().unwrap_or_else(|| want_rule.map(|r| r.post_mode.to_string().to_string()).unwrap_or("commit".to_string()));
                if cfg.pre_release_label.as_deref() != Some(wl2.as_str()) || cfg.post_mode.as_deref() != Some(wm2.as_str()) {
                    out.cex("branch_rules", format!("apply_branch_rules(branch {b:?}, flags label={fl:?} mode={fmode:?}) -> label {:?} mode {:?}, expected {wl2:?} {wm2:?}", cfg.pre_release_label, cfg.post_mode));
                }
                if let Some(n) = fnum {
                    if cfg.pre_release_num != Some(n) {
                        out.cex("branch_rules", format!("explicit --pre-release-num {n} lost for branch {b:?}: {:?}", cfg.pre_release_num));
                    }
                } else {
                    // no explicit number: the first matching rule's number (explicit, else taken from the branch name), whatever other flags are given
                    let wn = if b.is_empty() { None } else { res.pre_release_num };
                    if cfg.pre_release_num != wn {
                        out.cex("branch_rules", format!("apply_branch_rules(branch {b:?}, flags label={fl:?} mode={fmode:?}, no number flag) -> number {:?}, the first matching rule gives {wn:?}", cfg.pre_release_num));
                    }
                }
            }
        }
    }
}

// ------------------------------------------------------------------ bump levels

fn bump_family(out: &mut Out) {
    use zerv::version::zerv::{PreReleaseVar, Zerv, ZervSchema, ZervVars};
    let opt = [None, Some(0u64), Some(5)];
    let pres = [None, Some(PreReleaseVar { label: PreReleaseLabel::Alpha, number: None }), Some(PreReleaseVar { label: PreReleaseLabel::Beta, number: Some(3) })];
    let ov = [None, Some(0u32), Some(7)];
    let bu = [None, Some(0u32), Some(2)];
    for major in opt {
        for minor in opt {
            for pre in &pres {
                for post in [None, Some(2u64)] {
                    for dev in [None, Some(4u64)] {
                        for epoch in [None, Some(1u64)] {
                            let vars = ZervVars { major, minor, patch: Some(9), epoch, pre_release: pre.clone(), post, dev, ..Default::default() };
                            for o in ov {
                                for b in bu {
                                    for level in 0..7 {
                                        out.cases += 1;
                                        let mut z = Zerv::new(ZervSchema::pep440_default().unwrap(), vars.clone()).unwrap();
                                        let r = match level {
                                            0 => z.process_epoch(o, b),
                                            1 => z.process_major(o, b),
                                            2 => z.process_minor(o, b),
                                            3 => z.process_patch(o, b),
                                            4 => z.process_pre_release_num(o, b),
                                            5 => z.process_post(o, b),
                                            _ => z.process_dev(o, b),
                                        };
                                        if r.is_err() {
                                            out.cex("bump_levels", format!("level {level} rejected override={o:?} bump={b:?} on {vars:?}"));
                                            continue;
                                        }
                                        // expected: default order epoch, major, minor, patch, [core], pre label, pre num, post, dev
                                        let mut e = vars.clone();
                                        let num = |cur: Option<u64>| -> Option<u64> {
                                            let base = o.map(|x| x as u64).or(cur);
                                            match b { Some(i) => Some(base.unwrap_or(0) + i as u64), None => base }
                                        };
                                        match level {
                                            0 => e.epoch = num(vars.epoch),
                                            1 => e.major = num(vars.major),
                                            2 => e.minor = num(vars.minor),
                                            3 => e.patch = num(vars.patch),
                                            4 => {
                                                let lab = vars.pre_release.as_ref().map(|p| p.label).unwrap_or(PreReleaseLabel::Alpha);
                                                let mut pr = vars.pre_release.clone();
                                                if let Some(x) = o {
                                                    pr = Some(PreReleaseVar { label: lab, number: Some(x as u64) });
                                                }
                                                if let Some(i) = b {
                                                    let cur = pr.as_ref().and_then(|p| p.number).unwrap_or(0);
                                                    pr = Some(PreReleaseVar { label: lab, number: Some(cur + i as u64) });
                                                }
                                                e.pre_release = pr;
                                            }
                                            5 => e.post = num(vars.post),
                                            _ => e.dev = num(vars.dev),
                                        }
                                        if b.is_some() {
                                            // reset every lower level
                                            if level < 1 { e.major = Some(0); }
                                            if level < 2 { e.minor = Some(0); }
                                            if level < 3 { e.patch = Some(0); }
                                            if level < 4 { e.pre_release = None; }
                                            if level < 5 { e.post = None; }
                                            if level < 6 { e.dev = None; }
                                        }
                                        if z.vars != e {
                                            out.cex("bump_levels", format!("level {level} (0=epoch 1=major 2=minor 3=patch 4=pre-release-num 5=post 6=dev) override={o:?} bump={b:?} on {{major:{major:?} minor:{minor:?} patch:Some(9) epoch:{epoch:?} pre:{pre:?} post:{post:?} dev:{dev:?}}}: got {{major:{:?} minor:{:?} patch:{:?} epoch:{:?} pre:{:?} post:{:?} dev:{:?}}}, expected {{major:{:?} minor:{:?} patch:{:?} epoch:{:?} pre:{:?} post:{:?} dev:{:?}}}",
                                                z.vars.major, z.vars.minor, z.vars.patch, z.vars.epoch, z.vars.pre_release, z.vars.post, z.vars.dev,
                                                e.major, e.minor, e.patch, e.epoch, e.pre_release, e.post, e.dev));
                                        }
                                    }
                                }
                            }
                        }
                    }
                }
            }
        }
    }
    // reset under other precedence orders (the reset loop is only an assumed contract in the Verus unit): for every
    // order below, bumping level p must reset exactly the levels that come after p in that order
    {
        use zerv::version::zerv::components::{Component as C, Var};
        use zerv::version::zerv::{Precedence as P, PrecedenceOrder};
        let orders: Vec<Vec<P>> = vec![
            vec![P::Epoch, P::Major, P::Minor, P::Patch, P::Core, P::PreReleaseLabel, P::PreReleaseNum, P::Post, P::Dev, P::ExtraCore, P::Build],
            vec![P::Dev, P::Post, P::PreReleaseNum, P::PreReleaseLabel, P::Patch, P::Minor, P::Major, P::Epoch],
            vec![P::Major, P::Epoch, P::Patch, P::Minor, P::Post, P::PreReleaseLabel, P::Dev, P::PreReleaseNum],
            vec![P::Minor, P::Major, P::Patch],
        ];
        let levels = [P::Epoch, P::Major, P::Minor, P::Patch, P::PreReleaseLabel, P::PreReleaseNum, P::Post, P::Dev];
        for order in &orders {
            for (li, p) in levels.iter().enumerate() {
                out.cases += 1;
                let vars = ZervVars { major: Some(3), minor: Some(4), patch: Some(5), epoch: Some(6),
                    pre_release: Some(PreReleaseVar { label: PreReleaseLabel::Beta, number: Some(7) }), post: Some(8), dev: Some(9), distance: Some(2), ..Default::default() };
                let schema = ZervSchema::new_with_precedence(vec![C::Var(Var::Major)], vec![], vec![], PrecedenceOrder::from_precedences(order.clone())).unwrap();
                let mut z = Zerv::new(schema, vars.clone()).unwrap();
                let r = z.reset_lower_precedence_components(p);
                let pos = order.iter().position(|x| x == p);
                if r.is_ok() != pos.is_some() {
                    out.cex("bump_levels", format!("reset_lower_precedence_components({p:?}) under order {order:?}: is_ok = {}, level known = {}", r.is_ok(), pos.is_some()));
                    continue;
                }
                let Some(pos) = pos else { if z.vars != vars { out.cex("bump_levels", format!("rejected reset({p:?}) changed the variables")); } continue; };
                let after = |q: &P| order.iter().position(|x| x == q).map(|i| i > pos).unwrap_or(false);
                let mut e = vars.clone();
                if after(&P::Epoch) { e.epoch = Some(0); }
                if after(&P::Major) { e.major = Some(0); }
                if after(&P::Minor) { e.minor = Some(0); }
                if after(&P::Patch) { e.patch = Some(0); }
                if after(&P::PreReleaseLabel) { e.pre_release = None; }
                else if after(&P::PreReleaseNum) { e.pre_release = Some(PreReleaseVar { label: PreReleaseLabel::Beta, number: Some(0) }); }
                if after(&P::Post) { e.post = None; }
                if after(&P::Dev) { e.dev = None; }
                let _ = li;
                if z.vars != e {
                    out.cex("bump_levels", format!("reset_lower_precedence_components({p:?}) under order {order:?}: got major={:?} minor={:?} patch={:?} epoch={:?} pre={:?} post={:?} dev={:?}; expected major={:?} minor={:?} patch={:?} epoch={:?} pre={:?} post={:?} dev={:?}",
                        z.vars.major, z.vars.minor, z.vars.patch, z.vars.epoch, z.vars.pre_release, z.vars.post, z.vars.dev,
                        e.major, e.minor, e.patch, e.epoch, e.pre_release, e.post, e.dev));
                }
            }
        }
    }
    // overflow is rejected, not wrapped
    let vars = ZervVars { major: Some(u64::MAX), ..Default::default() };
    let mut z = Zerv::new(ZervSchema::pep440_default().unwrap(), vars).unwrap();
    let r = std::panic::catch_unwind(std::panic::AssertUnwindSafe(|| z.process_major(None, Some(1))));
    match r {
        Ok(Err(_)) => {}
        Ok(Ok(())) => out.cex("bump_levels", format!("major=u64::MAX bump 1 accepted: {:?}", z.vars.major)),
        Err(_) => out.cex("bump_levels", "major=u64::MAX bump 1 panicked".into()),
    }
}

// ------------------------------------------------------------------ tier selection

fn tier_family(out: &mut Out) {
    use zerv::schema::ZervSchemaPreset as P;
    use zerv::version::zerv::components::{Component as C, Var};
    use zerv::version::zerv::{PreReleaseVar, Zerv, ZervVars};
    // content of the sixteen fixed presets (documented lists: standard = major.minor.patch, calver = YYYY.MM.DD.patch; tiers add
    // epoch / pre-release / post / dev to extra-core; -context adds branch, distance, short hash to build) — also exercises the
    // `.unwrap()` in every constructor
    let std_core = vec![C::Var(Var::Major), C::Var(Var::Minor), C::Var(Var::Patch)];
    let cal_core = vec![C::Var(Var::Timestamp("YYYY".into())), C::Var(Var::Timestamp("MM".into())), C::Var(Var::Timestamp("DD".into())), C::Var(Var::Patch)];
    let tiers = [vec![C::Var(Var::Epoch)], vec![C::Var(Var::Epoch), C::Var(Var::PreRelease)], vec![C::Var(Var::Epoch), C::Var(Var::PreRelease), C::Var(Var::Post)],
                 vec![C::Var(Var::Epoch), C::Var(Var::PreRelease), C::Var(Var::Post), C::Var(Var::Dev)]];
    let ctx = vec![C::Var(Var::BumpedBranch), C::Var(Var::Distance), C::Var(Var::BumpedCommitHashShort)];
    let fixed = [
        (P::StandardBase, 0, false, false), (P::StandardBasePrerelease, 1, false, false), (P::StandardBasePrereleasePost, 2, false, false), (P::StandardBasePrereleasePostDev, 3, false, false),
        (P::StandardBaseContext, 0, true, false), (P::StandardBasePrereleaseContext, 1, true, false), (P::StandardBasePrereleasePostContext, 2, true, false), (P::StandardBasePrereleasePostDevContext, 3, true, false),
        (P::CalverBase, 0, false, true), (P::CalverBasePrerelease, 1, false, true), (P::CalverBasePrereleasePost, 2, false, true), (P::CalverBasePrereleasePostDev, 3, false, true),
        (P::CalverBaseContext, 0, true, true), (P::CalverBasePrereleaseContext, 1, true, true), (P::CalverBasePrereleasePostContext, 2, true, true), (P::CalverBasePrereleasePostDevContext, 3, true, true),
    ];
    for (p, tier, with_ctx, calver) in fixed {
        out.cases += 1;
        let s = p.schema();
        let want_core = if calver { &cal_core } else { &std_core };
        let want_build: Vec<C> = if with_ctx { ctx.clone() } else { vec![] };
        if s.core() != want_core || s.extra_core() != &tiers[tier] || s.build() != &want_build {
            out.cex("presets_tier", format!("{p:?}.schema() = core {:?} extra_core {:?} build {:?}; documented: core {want_core:?} extra_core {:?} build {want_build:?}", s.core(), s.extra_core(), s.build(), tiers[tier]));
        }
        if calver {
            // "CalVer presets therefore print the UTC year, month and day of the commit (or, failing that, tag) time"
            for (bumped, last, ymd) in [(Some(1710511845u64), Some(86400u64), "2024.3.15"), (None, Some(1577836799), "2019.12.31"), (Some(951782400), None, "2000.2.29")] {
                out.cases += 1;
                let vars = ZervVars { patch: Some(4), bumped_timestamp: bumped, last_timestamp: last, ..Default::default() };
                let rendered = SemVer::from(Zerv { schema: s.clone(), vars }).to_string();
                if !(rendered == format!("{ymd}-4") || rendered.starts_with(&format!("{ymd}-4+")) || rendered.starts_with(&format!("{ymd}-4."))) {
                    out.cex("presets_tier", format!("{p:?} with commit time {bumped:?} / tag time {last:?} and patch 4 renders {rendered:?}; UTC date is {ymd}"));
                }
            }
        }
    }
    for dirty in [None, Some(false), Some(true)] {
        for distance in [None, Some(0u64), Some(3)] {
            for pre in [None, Some(PreReleaseVar { label: PreReleaseLabel::Alpha, number: Some(1) })] {
                for post in [None, Some(2u64)] {
                    for epoch in [None, Some(1u64)] {
                        let vars = ZervVars { dirty, distance, pre_release: pre.clone(), post, epoch, major: Some(1), ..Default::default() };
                        let d = dirty == Some(true);
                        let ahead = distance.unwrap_or(0) > 0;
                        let tier = if d { 3 } else if ahead || (pre.is_some() && post.is_some()) { 2 } else if pre.is_some() { 1 } else { 0 };
                        let std_t = [P::StandardBase, P::StandardBasePrerelease, P::StandardBasePrereleasePost, P::StandardBasePrereleasePostDev];
                        let std_c = [P::StandardBaseContext, P::StandardBasePrereleaseContext, P::StandardBasePrereleasePostContext, P::StandardBasePrereleasePostDevContext];
                        let cal_t = [P::CalverBase, P::CalverBasePrerelease, P::CalverBasePrereleasePost, P::CalverBasePrereleasePostDev];
                        let cal_c = [P::CalverBaseContext, P::CalverBasePrereleaseContext, P::CalverBasePrereleasePostContext, P::CalverBasePrereleasePostDevContext];
                        let cases = [
                            (P::StandardNoContext, std_t[tier].schema()),
                            (P::StandardContext, std_c[tier].schema()),
                            (P::Standard, if d || ahead { std_c[tier].schema() } else { std_t[tier].schema() }),
                            (P::CalverNoContext, cal_t[tier].schema()),
                            (P::CalverContext, cal_c[tier].schema()),
                            (P::Calver, if d || ahead { cal_c[tier].schema() } else { cal_t[tier].schema() }),
                        ];
                        for (p, want) in cases {
                            out.cases += 1;
                            let got = p.schema_with_zerv(&vars);
                            if got != want {
                                out.cex("presets_tier", format!("{p:?}.schema_with_zerv(dirty={dirty:?}, distance={distance:?}, pre={}, post={}, epoch={epoch:?}) is not tier {tier}", pre.is_some(), post.is_some()));
                            }
                        }
                    }
                }
            }
        }
    }
}

// ------------------------------------------------------------------ timestamp patterns

fn timestamp_family(out: &mut Out) {
    use chrono::{TimeZone, Utc};
    let table = [("YYYY", "%Y"), ("YY", "%y"), ("MM", "%-m"), ("0M", "%m"), ("DD", "%-d"), ("0D", "%d"), ("HH", "%-H"), ("0H", "%H"),
                 ("mm", "%-M"), ("0m", "%M"), ("SS", "%-S"), ("0S", "%S"), ("WW", "%-W"), ("0W", "%W"),
                 ("compact_date", "%Y%m%d"), ("compact_datetime", "%Y%m%d%H%M%S")];
    for ts in [0u64, 1, 86399, 1577836800, 1710511845, 4102444799, 7258118399] {
        let dt = Utc.timestamp_opt(ts as i64, 0).unwrap();
        for (p, code) in table {
            out.cases += 1;
            let want = dt.format(code).to_string();
            match zerv::version::zerv::resolve_timestamp(p, ts) {
                Ok(got) if got == want => {}
                other => out.cex("timestamp", format!("resolve_timestamp({p:?}, {ts}) = {other:?}, UTC calendar field ({code}) = {want:?}")),
            }
        }
    }
    // the statement's own domain: every day from 1970-01-01 to 2199-12-31 (quick: every 3rd day, shifted by the seed) at its first and last second, the date
    // fields against a calendar algorithm that shares nothing with chrono (days -> civil date, Howard Hinnant's algorithm), widths included: YY is two digits
    // also in the years 2000..2009 / 2100..2109 (seed U17_1), the 0-forms and compact forms are fixed-width
    let civil = |days: i64| -> (i64, u32, u32) {
        let z = days + 719468;
        let era = z.div_euclid(146097);
        let doe = z.rem_euclid(146097);
        let yoe = (doe - doe / 1460 + doe / 36524 - doe / 146096) / 365;
        let doy = doe - (365 * yoe + yoe / 4 - yoe / 100);
        let mp = (5 * doy + 2) / 153;
        let d = (doy - (153 * mp + 2) / 5 + 1) as u32;
        let m = if mp < 10 { mp + 3 } else { mp - 9 } as u32;
        (yoe + era * 400 + if m <= 2 { 1 } else { 0 }, m, d)
    };
    let last_day = 84005i64; // 2199-12-31
    let step = if out.thorough { 1 } else { 3 };
    let mut day = (out.below(3) as i64) % step;
    let mut failures = 0;
    while day <= last_day && failures < 5 {
        let (y, m, d) = civil(day);
        for (sec, hh, mi, ss) in [(0u64, 0u32, 0u32, 0u32), (86399, 23, 59, 59)] {
            let ts = day as u64 * 86400 + sec;
            let wants: [(&str, String); 14] = [
                ("YYYY", format!("{y}")), ("YY", format!("{:02}", y % 100)), ("MM", format!("{m}")), ("0M", format!("{m:02}")), ("DD", format!("{d}")), ("0D", format!("{d:02}")),
                ("HH", format!("{hh}")), ("0H", format!("{hh:02}")), ("mm", format!("{mi}")), ("0m", format!("{mi:02}")), ("SS", format!("{ss}")), ("0S", format!("{ss:02}")),
                ("compact_date", format!("{y}{m:02}{d:02}")), ("compact_datetime", format!("{y}{m:02}{d:02}{hh:02}{mi:02}{ss:02}")),
            ];
            for (p, want) in wants.iter() {
                out.cases += 1;
                match zerv::version::zerv::resolve_timestamp(p, ts) {
                    Ok(got) if &got == want => {}
                    other => { failures += 1; out.cex("timestamp", format!("resolve_timestamp({p:?}, {ts}) = {other:?}, the UTC calendar field of {y}-{m:02}-{d:02} {hh:02}:{mi:02}:{ss:02} is {want:?}")); }
                }
            }
            // week of the year, Monday as the first day (days before the first Monday are week 0): from the day of the year and the weekday
            let jan1 = { let mut a = day; while civil(a).1 != 1 || civil(a).2 != 1 { a -= 1; } a };
            let doy0 = day - jan1;
            let wd_mon0 = (day + 3).rem_euclid(7); // 1970-01-01 was a Thursday
            let week = (doy0 + 7 - wd_mon0) / 7;
            for (p, want) in [("WW", format!("{week}")), ("0W", format!("{week:02}"))] {
                out.cases += 1;
                match zerv::version::zerv::resolve_timestamp(p, ts) {
                    Ok(got) if got == want => {}
                    other => { failures += 1; out.cex("timestamp", format!("resolve_timestamp({p:?}, {ts}) = {other:?}, the Monday-based week of {y}-{m:02}-{d:02} is {want:?}")); }
                }
            }
        }
        day += step;
    }
}

// ------------------------------------------------------------------ schema validation

fn schema_family(out: &mut Out) {
    use zerv::version::zerv::components::{Component as C, Var};
    use zerv::version::zerv::ZervSchema;
    let pool = vec![
        C::Var(Var::Major), C::Var(Var::Minor), C::Var(Var::Patch), C::Var(Var::Epoch), C::Var(Var::PreRelease), C::Var(Var::Post), C::Var(Var::Dev),
        C::Var(Var::Distance), C::Str("x".into()), C::UInt(3), C::Var(Var::Timestamp("YYYY".into())), C::Var(Var::Timestamp("QQ".into())),
        C::Var(Var::Timestamp("%Y".into())),
    ];
    let mut lists: Vec<Vec<C>> = vec![vec![]];
    for a in &pool {
        lists.push(vec![a.clone()]);
    }
    for a in &pool[..8] {
        for b in &pool[..8] {
            lists.push(vec![a.clone(), b.clone()]);
        }
    }
    // all orders of the three primary components, alone and with a literal in between
    let prim = [C::Var(Var::Major), C::Var(Var::Minor), C::Var(Var::Patch)];
    for perm in [[0, 1, 2], [0, 2, 1], [1, 0, 2], [1, 2, 0], [2, 0, 1], [2, 1, 0]] {
        lists.push(vec![prim[perm[0]].clone(), prim[perm[1]].clone(), prim[perm[2]].clone()]);
        lists.push(vec![prim[perm[0]].clone(), C::Str("x".into()), prim[perm[1]].clone(), C::UInt(1), prim[perm[2]].clone()]);
    }
    let n_small = lists.len();
    let rank = |v: &Var| match v { Var::Major => 0, Var::Minor => 1, Var::Patch => 2, _ => 9 };
    let primary = |v: &Var| matches!(v, Var::Major | Var::Minor | Var::Patch);
    let secondary = |v: &Var| matches!(v, Var::Epoch | Var::PreRelease | Var::Post | Var::Dev);
    let ts_ok = |c: &C| match c {
        C::Var(Var::Timestamp(p)) => ["compact_date", "compact_datetime", "YYYY", "YY", "MM", "0M", "DD", "0D", "HH", "0H", "mm", "0m", "SS", "0S", "WW", "0W"].contains(&p.as_str()) || p.starts_with('%'),
        _ => true,
    };
    let vars_of = |l: &Vec<C>| -> Vec<Var> { l.iter().filter_map(|c| if let C::Var(v) = c { Some(v.clone()) } else { None }).collect() };
    let dup = |vs: &Vec<Var>, pred: &dyn Fn(&Var) -> bool| (0..vs.len()).any(|i| pred(&vs[i]) && (i + 1..vs.len()).any(|j| vs[j] == vs[i]));
    let step = lists.len() / 12 + 1;
    for (i, core) in lists.iter().enumerate() {
        for (j, extra) in lists.iter().enumerate() {
            if (i + j) % step != 0 && !(i < 14 && j < 14) && !(i + 12 >= n_small && j < 3) {
                continue;
            }
            for build in [&lists[0], &lists[1], &lists[4], &lists[8], &lists[12]] {
                out.cases += 1;
                let ok = ZervSchema::new(core.clone(), extra.clone(), build.clone()).is_ok();
                let cv = vars_of(core);
                let ev = vars_of(extra);
                let bv = vars_of(build);
                let rules = !(core.is_empty() && extra.is_empty() && build.is_empty())
                    && core.iter().chain(extra.iter()).chain(build.iter()).all(ts_ok)
                    && !cv.iter().any(secondary) && !dup(&cv, &primary)
                    && { let ps: Vec<i32> = cv.iter().filter(|v| primary(v)).map(rank).collect(); ps.windows(2).all(|w| w[0] < w[1]) }
                    && !ev.iter().any(primary) && !dup(&ev, &secondary)
                    && !bv.iter().any(|v| primary(v) || secondary(v));
                if ok && !rules {
                    out.cex("schema_validate", format!("ZervSchema::new accepted core={core:?} extra_core={extra:?} build={build:?} although it violates the placement rules"));
                }
            }
        }
    }
    // the validating setters: whatever sequence of set_* / push_* succeeds, the schema still satisfies the rules (in particular it keeps a component)
    let starts = [
        (vec![], vec![], vec![C::Str("nightly".into())]),
        (vec![C::Var(Var::Major)], vec![], vec![]),
        (vec![], vec![C::Var(Var::Epoch)], vec![]),
        (vec![C::Var(Var::Major), C::Var(Var::Minor)], vec![C::Var(Var::Post)], vec![C::UInt(1)]),
    ];
    let repl: Vec<Vec<C>> = vec![vec![], vec![C::Str("x".into())], vec![C::Var(Var::Minor), C::Var(Var::Major)], vec![C::Var(Var::Epoch)], vec![C::Var(Var::Patch)], vec![C::Var(Var::Timestamp("QQ".into()))]];
    for (c0, e0, b0) in &starts {
        for r in &repl {
            for which in 0..3 {
                out.cases += 1;
                let Ok(mut s) = ZervSchema::new(c0.clone(), e0.clone(), b0.clone()) else { continue };
                let res = match which { 0 => s.set_core(r.clone()), 1 => s.set_extra_core(r.clone()), _ => s.set_build(r.clone()) };
                let still_valid = ZervSchema::new(s.core().clone(), s.extra_core().clone(), s.build().clone()).is_ok();
                if res.is_ok() && !still_valid {
                    out.cex("schema_validate", format!("set_{} ({r:?}) on core={c0:?} extra_core={e0:?} build={b0:?} succeeded and left a schema that violates the placement rules: core={:?} extra_core={:?} build={:?}",
                        ["core", "extra_core", "build"][which], s.core(), s.extra_core(), s.build()));
                }
                if res.is_err() && (s.core() != c0 || s.extra_core() != e0 || s.build() != b0) {
                    out.cex("schema_validate", format!("set_{} ({r:?}) failed but changed the schema", ["core", "extra_core", "build"][which]));
                }
            }
        }
    }
}

// ------------------------------------------------------------------ parts recomposition

fn parts_family(out: &mut Out, semver: bool) {
    if semver {
    // the last two are longer than 128 / 300 characters (long branch names in the build part): no length is special
    let long1 = format!("1.2.3-rc.1+dependabot.npm.and.yarn.{}.gabc1234", "very.long.scope.name.with.many.segments.".repeat(3).trim_end_matches('.'));
    let long2 = format!("1.2.3-{}+{}", "x.".repeat(80).trim_end_matches('.'), "y9.".repeat(90).trim_end_matches('.'));
    for s in ["1.2.3", "1.2.3-alpha.1", "1.2.3+b.7", "0.0.0-rc.1.x+meta.5.z", "10.20.30-0a.b-c", "1.2.3+Feature.X", "1.0.0-SNAPSHOT", "2.0.0-rc.1+JIRA.1234.gABC123", "1.0.0-B.a+A.b", long1.as_str(), long2.as_str()] {
        out.cases += 1;
        let v = SemVer::from_str(s).unwrap();
        let mut r = v.to_base_part();
        if let Some(p) = v.to_pre_release_part() {
            r.push('-');
            r.push_str(&p);
        }
        let mut docker = r.clone();
        if let Some(b) = v.to_build_part() {
            r.push('+');
            r.push_str(&b);
            docker.push('-');
            docker.push_str(&b);
        }
        if r != v.to_string() {
            out.cex("semver_parts", format!("parts of {s} recompose to {r:?}, to_string = {:?}", v.to_string()));
        }
        if docker != v.to_docker_format() {
            out.cex("semver_parts", format!("docker form of {s} = {:?}, expected {docker:?}", v.to_docker_format()));
        }
    }
    return;
    }
    for s in ["1.2.3", "2!1.0a1", "1.0.post2.dev3", "1.0rc1.post2.dev3+ubuntu.20", "1.0+a.1", "1!2.3.4b5", "0.1.dev0", "3.post0+local.7"] {
        out.cases += 1;
        let v = PEP440::from_str(s).unwrap();
        let mut r = v.to_base_part();
        if let Some(p) = v.to_pre_release_part() {
            r.push_str(&p);
        }
        if let Some(b) = v.to_build_part() {
            r.push('+');
            r.push_str(&b);
        }
        if r != v.to_string() {
            out.cex("pep440_display", format!("parts of {s} recompose to {r:?}, to_string = {:?}", v.to_string()));
        }
        if v.to_string() != s {
            out.cex("pep440_display", format!("normal form {s} prints as {:?}", v.to_string()));
        }
    }
}

// ------------------------------------------------------------------ sanitising barrier

fn barrier_family(out: &mut Out) {
    use zerv::version::zerv::components::{Component as C, Var};
    use zerv::version::zerv::ZervVars;
    let texts = ["feature/x", "féature/٣x", "a..b", "--", "", "00012", "K", "İx", "a b\tc", "release/007/x", "ＡＢ",
                 "build/018446744073709551616", "0123456789012345678901234567890123456789", "abcdefgéhij", "1..02",
                 // multi-byte characters straddling byte 8 (the short-hash cut) at every offset
                 "abcdef€x", "abcde€xy", "abcdefg€", "abcd€efgh", "abcdef😀x", "abcde😀xy", "abcd😀xyz", "abcdefg😀", "日本語日本語", "aé日本語日本"];
    let vars_of = |t: &str| ZervVars {
        major: Some(1), minor: Some(0), patch: Some(0), epoch: Some(2), post: Some(3), dev: Some(4), distance: Some(5), dirty: Some(true),
        bumped_branch: Some(t.to_string()), bumped_commit_hash: Some(t.to_string()), last_branch: Some(t.to_string()),
        last_commit_hash: Some(t.to_string()), last_tag_version: Some(t.to_string()), bumped_timestamp: Some(1710511845), last_timestamp: Some(1),
        ..Default::default()
    };
    let all = vec![Var::Major, Var::Minor, Var::Patch, Var::Epoch, Var::PreRelease, Var::Post, Var::Dev, Var::Distance, Var::Dirty, Var::BumpedBranch,
                   Var::BumpedCommitHash, Var::BumpedCommitHashShort, Var::BumpedTimestamp, Var::LastBranch, Var::LastCommitHash,
                   Var::LastCommitHashShort, Var::LastTimestamp, Var::Timestamp("YYYY".into()), Var::Timestamp("compact_date".into())];
    for t in texts {
        let vars = vars_of(t);
        for (name, san, d, lower) in [("semver_str", Sanitizer::semver_str(), '.', false), ("pep440_local_str", Sanitizer::pep440_local_str(), '.', true)] {
            for v in &all {
                out.cases += 1;
                let got = std::panic::catch_unwind(|| v.resolve_value(&vars, &san));
                match got {
                    Err(_) => out.cex("resolve_barrier", format!("{v:?}.resolve_value panicked for text {t:?} with {name}")),
                    Ok(Some(s)) => {
                        if let Err(why) = is_sanitized(&s, d, lower, false, None) {
                            out.cex("resolve_barrier", format!("{v:?}.resolve_value(text {t:?}, {name}) = {s:?}: {why}"));
                        }
                    }
                    Ok(None) => {}
                }
            }
            out.cases += 1;
            if let Some(s) = C::Str(t.to_string()).resolve_value(&vars, &san) {
                if let Err(why) = is_sanitized(&s, d, lower, false, None) {
                    out.cex("resolve_barrier", format!("Component::Str({t:?}).resolve_value with {name} = {s:?}: {why}"));
                }
            }
        }
    }
    // C17 "the commit (or, failing that, tag) time": the instant a timestamp variable is resolved for, in every combination of the two times
    // (2024-03-15 and 2025-07-04; either may be the later one)
    let (t1, t2) = (1710511845u64, 1751600000u64);
    for (b, l) in [(Some(t1), Some(t2)), (Some(t2), Some(t1)), (Some(t1), None), (None, Some(t2)), (None, None), (Some(t1), Some(t1))] {
        let vars = ZervVars { bumped_timestamp: b, last_timestamp: l, ..Default::default() };
        for pat in ["YYYY", "MM", "DD", "compact_date"] {
            out.cases += 1;
            let want = b.or(l).and_then(|t| zerv::version::zerv::resolve_timestamp(pat, t).ok());
            let got = Var::Timestamp(pat.to_string()).resolve_value(&vars, &Sanitizer::semver_str());
            if got != want {
                out.cex("resolve_barrier", format!("class=timestamp-not-commit-then-tag ts({pat:?}) with commit time {b:?} and tag time {l:?} resolves to {got:?}; the pattern applied to the commit time, else the tag time, is {want:?}"));
            }
        }
    }
}


// ------------------------------------------------------------------ template functions (bounded only: Tera code is not under contract)

fn template_family(out: &mut Out) {
    use chrono::{TimeZone, Utc};
    use zerv::cli::utils::template::{Template, TemplateExt};
    // the renderer trims the whole output: the expression is put between brackets so that whitespace it produces is observed
    let render = |t: String| -> Result<String, String> {
        let tpl: Template<String> = Template::new(format!("[{t}]"));
        match std::panic::catch_unwind(std::panic::AssertUnwindSafe(|| tpl.render_string(None))) {
            Err(_) => Err(format!("PANIC: {}", LAST_PANIC.lock().map(|g| g.replace('\n', " ")).unwrap_or_default())),
            Ok(Ok(s)) => Ok(s.strip_prefix('[').and_then(|x| x.strip_suffix(']')).map(String::from).unwrap_or(s)),
            Ok(Err(e)) => Err(format!("error: {e}")),
        }
    };
    let values = ["", "a", "abc", "aé", "éé", "日本語x", "feature/x-1", "0007", "a b", "Ｋ", " ", "  ", " a", "\u{a0}", "0", "+"];
    for v in values {
        for len in [0usize, 1, 2, 3, 7, 30] {
            out.cases += 1;
            match render(format!("{{{{ prefix(value=\"{v}\", length={len}) }}}}")) {
                Ok(r) => {
                    if r.chars().count() > len || !v.starts_with(&r) {
                        out.cex("template_functions", format!("prefix(value={v:?}, length={len}) = {r:?}: not a prefix of at most {len} characters"));
                    }
                }
                Err(e) if e.starts_with("PANIC") => out.cex("template_functions", format!("prefix(value={v:?}, length={len}) {e}")),
                Err(_) => {}
            }
            out.cases += 1;
            match render(format!("{{{{ hash(value=\"{v}\", length={len}) }}}}")) {
                Ok(r) => {
                    if r.chars().count() > len || !r.chars().all(|c| c.is_ascii_hexdigit()) {
                        out.cex("template_functions", format!("hash(value={v:?}, length={len}) = {r:?}: more than {len} characters or not hex"));
                    }
                }
                Err(e) if e.starts_with("PANIC") => out.cex("template_functions", format!("hash(value={v:?}, length={len}) {e}")),
                Err(_) => {}
            }
            for allow in [false, true] {
                out.cases += 1;
                match render(format!("{{{{ hash_int(value=\"{v}\", length={len}, allow_leading_zero={allow}) }}}}")) {
                    Ok(r) => {
                        let bad_zero = !allow && r.len() > 1 && r.starts_with('0');
                        if r.chars().count() > len || !r.chars().all(|c| c.is_ascii_digit()) || bad_zero {
                            out.cex("template_functions", format!("hash_int(value={v:?}, length={len}, allow_leading_zero={allow}) = {r:?}: more than {len} digits, a non-digit, or a leading zero"));
                        }
                    }
                    Err(e) if e.starts_with("PANIC") => out.cex("template_functions", format!("hash_int(value={v:?}, length={len}) {e}")),
                    Err(_) => {}
                }
            }
        }
        out.cases += 1;
        match render(format!("{{{{ prefix_if(value=\"{v}\", prefix=\"+\") }}}}")) {
            Ok(r) => {
                let want = if v.is_empty() { String::new() } else { format!("+{v}") };
                if r != want {
                    out.cex("template_functions", format!("prefix_if(value={v:?}, prefix=\"+\") = {r:?}, expected {want:?}"));
                }
            }
            Err(e) if e.starts_with("PANIC") => out.cex("template_functions", format!("prefix_if(value={v:?}) {e}")),
            Err(_) => {}
        }
        out.cases += 1;
        match render(format!("{{{{ sanitize(value=\"{v}\", preset=\"dotted\") }}}}")) {
            Ok(r) => {
                let want = Sanitizer::semver_str().sanitize(v);
                if r != want {
                    out.cex("template_functions", format!("sanitize(value={v:?}, preset=dotted) = {r:?}, sanitiser gives {want:?}"));
                }
            }
            Err(e) if e.starts_with("PANIC") => out.cex("template_functions", format!("sanitize(value={v:?}) {e}")),
            Err(_) => {}
        }
    }
    // every documented configuration of `sanitize`: a custom argument — also one spelled out with its default value (`lowercase=false`) — selects the custom
    // sanitiser `Sanitizer::str(separator, lowercase or false, keep_zeros or false, max_length)`; a preset together with any custom argument is refused (seed T15_1)
    for v in ["Feature/API-v2", "Rel_007.x", "00", "a--B"] {
        for sep in [None, Some("."), Some("-")] {
            for lc in [None, Some(true), Some(false)] {
                for kz in [None, Some(true), Some(false)] {
                    for ml in [None, Some(6usize)] {
                        if sep.is_none() && lc.is_none() && kz.is_none() && ml.is_none() { continue; }
                        let mut a = format!("value=\"{v}\"");
                        if let Some(x) = sep { a += &format!(", separator=\"{x}\""); }
                        if let Some(x) = lc { a += &format!(", lowercase={x}"); }
                        if let Some(x) = kz { a += &format!(", keep_zeros={x}"); }
                        if let Some(x) = ml { a += &format!(", max_length={x}"); }
                        out.cases += 1;
                        let want = Sanitizer::str(sep, lc.unwrap_or(false), kz.unwrap_or(false), ml).sanitize(v);
                        match render(format!("{{{{ sanitize({a}) }}}}")) {
                            Ok(r) => if r != want { out.cex("template_functions", format!("sanitize({a}) = {r:?}, the custom sanitiser of these arguments gives {want:?}")); },
                            Err(e) if e.starts_with("PANIC") => out.cex("template_functions", format!("sanitize({a}) {e}")),
                            Err(e) => out.cex("template_functions", format!("sanitize({a}) is refused ({e}); the custom sanitiser gives {want:?}")),
                        }
                        out.cases += 1;
                        if let Ok(r) = render(format!("{{{{ sanitize({a}, preset=\"uint\") }}}}")) {
                            out.cex("template_functions", format!("sanitize({a}, preset=\"uint\") is accepted and gives {r:?}: a preset together with a custom argument is to be refused"));
                        }
                    }
                }
            }
        }
    }
    for ts in [0u64, 86399, 1710511845, 4102444799] {
        for f in ["%Y-%m-%d", "%H:%M:%S", "%Y%m%d", "compact_date", "compact_datetime", "%j", "%Q", "%", "%-", "%:::z%!"] {
            out.cases += 1;
            let code = match f { "compact_date" => "%Y%m%d", "compact_datetime" => "%Y%m%d%H%M%S", x => x };
            match render(format!("{{{{ format_timestamp(value={ts}, format=\"{f}\") }}}}")) {
                Ok(r) => {
                    let dt = Utc.timestamp_opt(ts as i64, 0).unwrap();
                    let mut want = String::new();
                    use std::fmt::Write;
                    if write!(want, "{}", dt.format(code)).is_ok() && r != want {
                        out.cex("template_functions", format!("format_timestamp(value={ts}, format={f:?}) = {r:?}, UTC calendar formatting = {want:?}"));
                    }
                }
                Err(e) if e.starts_with("PANIC") => out.cex("template_functions", format!("format_timestamp(value={ts}, format={f:?}) {e}")),
                Err(_) => {}
            }
        }
    }
    // instants that are not representable as a (signed) Unix time must be refused, not wrapped into a wrong date
    // (the value reaches the function through the template variable, which is a u64)
    for ts in [9223372036854775808u64, 18446744073709551615, 18446744073709465216, 18446735739108322816] {
        out.cases += 1;
        let vars = zerv::version::zerv::ZervVars { major: Some(1), bumped_timestamp: Some(ts), ..Default::default() };
        let z = zerv::version::zerv::Zerv { schema: zerv::version::zerv::ZervSchema::semver_default().unwrap(), vars };
        let tpl: Template<String> = Template::new("[{{ format_timestamp(value=bumped_timestamp, format=\"%Y-%m-%d %H:%M:%S\") }}]".to_string());
        match std::panic::catch_unwind(std::panic::AssertUnwindSafe(|| tpl.render_string(Some(&z)))) {
            Err(_) => out.cex("template_functions", format!("format_timestamp(value=bumped_timestamp) with bumped_timestamp = {ts} panicked")),
            Ok(Ok(r)) => out.cex("template_functions", format!("format_timestamp(value=bumped_timestamp) with bumped_timestamp = {ts} prints {r:?}: the instant is {ts} seconds after 1970, far beyond year 9999 — not that date")),
            Ok(Err(_)) => {}
        }
    }
    // a `length` / `max_length` argument that is present must bound the result (or be refused): Tera arithmetic and filters yield floats
    for (expr, bound) in [("hash(value=\"x\", length=3.0)", 3usize), ("hash(value=\"x\", length=7/2)", 4), ("hash_int(value=\"x\", length=4.0)", 4),
                          ("prefix(value=\"abcdefghijklmnopqrstuvwxyz\", length=3.7 | round)", 4), ("hash(value=\"x\", length=2.0+1)", 3),
                          ("sanitize(value=\"abcdefghijkl\", max_length=4.0)", 4), ("sanitize(value=\"abcd-efgh-ijkl\", separator=\"-\", max_length=4.0)", 4)] {
        out.cases += 1;
        if let Ok(r) = render(format!("{{{{ {expr} }}}}")) {
            if r.chars().count() > bound {
                out.cex("template_functions", format!("{expr} = {r:?}: {} characters although the length argument asks for at most {bound}", r.chars().count()));
            }
        }
    }
}

static LAST_PANIC: std::sync::Mutex<String> = std::sync::Mutex::new(String::new());

// ------------------------------------------------------------------ placement (C06): SemVer::from(Zerv) / PEP440::from(Zerv)
// Oracle written from the property statement; only the value of a non-secondary component is taken from the real
// resolve_value (its content is C01's subject) — where each value goes is decided here independently.

fn placement_family(out: &mut Out, semver: bool) {
    use zerv::version::zerv::components::{Component as C, Var};
    use zerv::version::zerv::core::{PreReleaseVar, Zerv};
    use zerv::version::zerv::{ZervSchema, ZervVars};
    let fam = if semver { "semver_from_zerv" } else { "pep440_from_zerv" };
    let mut cores: Vec<Vec<C>> = vec![
        vec![C::Var(Var::Major), C::Var(Var::Minor), C::Var(Var::Patch)],
        vec![C::Var(Var::Major)],
        vec![],
        vec![C::Var(Var::Major), C::Var(Var::Minor), C::Var(Var::Patch), C::UInt(9), C::Var(Var::Distance)],
        vec![C::Str("Feat.x".into()), C::Var(Var::Major), C::UInt(7), C::Str("007".into()), C::Var(Var::Patch), C::UInt(4)],
        vec![C::Var(Var::BumpedBranch), C::Var(Var::Minor), C::Str("".into()), C::Str("1.2".into())],
        vec![C::UInt(4294967296), C::UInt(1), C::Var(Var::Dirty), C::UInt(2), C::UInt(3), C::UInt(4)],
        vec![C::Var(Var::Minor), C::Var(Var::Patch), C::Str("-".into()), C::Var(Var::LastTimestamp)],
        // values that are not integers as given but sanitise to digits, or digits with a sign / padding
        vec![C::Str("#7".into()), C::Var(Var::Major), C::Var(Var::Minor), C::Var(Var::Patch)],
        vec![C::Var(Var::Major), C::Str("+7".into()), C::Str(" 8".into()), C::Var(Var::Custom("offset".into())), C::Var(Var::Patch), C::Str("9-".into())],
        vec![C::Str("v1".into()), C::Str("1.2".into()), C::Str("1e3".into()), C::UInt(5), C::Str("٣".into())],
    ];
    let mut extras: Vec<Vec<C>> = vec![
        vec![],
        vec![C::Var(Var::Epoch), C::Var(Var::PreRelease), C::Var(Var::Post), C::Var(Var::Dev)],
        vec![C::Var(Var::Dev), C::Str("Mid.5".into()), C::Var(Var::Post), C::UInt(12), C::Var(Var::PreRelease), C::Var(Var::Epoch)],
        vec![C::Var(Var::BumpedBranch), C::Var(Var::PreRelease), C::Var(Var::Distance)],
        vec![C::Var(Var::Post), C::Var(Var::BumpedCommitHashShort), C::Str("".into())],
    ];
    let mut builds: Vec<Vec<C>> = vec![
        vec![],
        vec![C::Var(Var::BumpedBranch), C::Var(Var::Distance), C::Var(Var::BumpedCommitHashShort)],
        vec![C::Str("B.01.x".into()), C::UInt(5), C::Var(Var::Dirty)],
        // sections whose components all resolve to the empty text (a branch without one ASCII letter or digit, literals of separators only):
        // the section contributes nothing — no dangling `+` / `-` (seed T01_2)
        vec![C::Var(Var::BumpedBranch)],
        vec![C::Str("".into()), C::Str("-_".into())],
    ];
    if out.thorough {
        // random component lists (the schema constructor filters the invalid ones)
        let lits = ["x", "Feat.x", "007", "", "1.2", "#7", "+7", " 8", "A-b_c", "٣", "rc", "0", "4294967296"];
        let cvars = [Var::Major, Var::Minor, Var::Patch, Var::Distance, Var::Dirty, Var::BumpedBranch, Var::BumpedCommitHashShort, Var::LastTimestamp, Var::Custom("offset".into()), Var::Custom("name".into()), Var::Timestamp("YYYY".into())];
        let evars = [Var::Epoch, Var::PreRelease, Var::Post, Var::Dev, Var::Distance, Var::BumpedBranch, Var::Custom("name".into())];
        let mut list = |out: &mut Out, vars: &[Var], max: usize| -> Vec<C> {
            let n = out.below(max + 1);
            (0..n).map(|_| match out.below(4) {
                0 => C::Str(out.pick(&lits).to_string()),
                1 => C::UInt(*out.pick(&[0u64, 1, 7, 4294967295, 4294967296])),
                _ => C::Var(out.pick(vars).clone()),
            }).collect()
        };
        for _ in 0..60 {
            let l = list(out, &cvars, 6);
            cores.push(l);
        }
        for _ in 0..12 {
            let l = list(out, &evars, 5);
            extras.push(l);
        }
        for _ in 0..4 {
            let l = list(out, &cvars[3..], 4);
            builds.push(l);
        }
    }
    let mut assignments: Vec<ZervVars> = Vec::new();
    for (maj, min, pat) in [(Some(1u64), Some(2u64), Some(3u64)), (Some(0), None, Some(5)), (None, None, None)] {
        for epoch in [None, Some(0u64), Some(4)] {
            for pre in [None, Some((PreReleaseLabel::Alpha, None)), Some((PreReleaseLabel::Beta, Some(0u64))), Some((PreReleaseLabel::Rc, Some(12)))] {
                for (post, dev) in [(None, None), (Some(0u64), Some(7u64)), (Some(3), None)] {
                    for branch in [None, Some("Feature/Äx.01-y"), Some("release/2.x"), Some("日本語/--")] {
                        assignments.push(ZervVars {
                            major: maj, minor: min, patch: pat, epoch,
                            pre_release: pre.clone().map(|(label, number)| PreReleaseVar { label, number }),
                            post, dev,
                            distance: if branch.is_some() { Some(3) } else { None },
                            dirty: if post.is_some() { Some(true) } else { None },
                            bumped_branch: branch.map(String::from),
                            bumped_commit_hash: branch.map(|_| "0A1b2c3d4e5f".to_string()),
                            last_timestamp: Some(1710511845),
                            custom: serde_json::json!({"offset": -7, "name": "X.y"}),
                            ..Default::default()
                        });
                    }
                }
            }
        }
    }
    let uint = Sanitizer::uint();
    let strs = if semver { Sanitizer::semver_str() } else { Sanitizer::pep440_local_str() };
    // "integer-valued": a value that reads as a number of the format's field width (SemVer fields are u64, PEP 440 fields u32)
    let flat = |v: &str| -> Vec<String> {
        v.split('.').filter(|p| !p.is_empty()).map(|p| {
            let as_num = if semver { p.parse::<u64>().ok().map(|n| n.to_string()) } else { p.parse::<u32>().ok().map(|n| n.to_string()) };
            as_num.unwrap_or_else(|| if semver { p.to_string() } else { p.to_lowercase() })
        }).collect()
    };
    let int_of = |c: &C, vars: &ZervVars| -> Option<u64> {
        c.resolve_value(vars, &uint).filter(|v| !v.is_empty()).and_then(|v| if semver { v.parse::<u64>().ok() } else { v.parse::<u32>().ok().map(|n| n as u64) })
    };
    let text_of = |c: &C, vars: &ZervVars| -> Vec<String> {
        c.resolve_value(vars, &strs).filter(|v| !v.is_empty()).map(|v| flat(&v)).unwrap_or_default()
    };
    let secondary = |v: &Var| matches!(v, Var::Epoch | Var::PreRelease | Var::Post | Var::Dev);
    for core in &cores {
        for extra in &extras {
            for build in &builds {
                let schema = match ZervSchema::new(core.clone(), extra.clone(), build.clone()) {
                    Ok(s) => s,
                    Err(_) => continue,
                };
                for vars in &assignments {
                    out.cases += 1;
                    let zerv = Zerv { schema: schema.clone(), vars: vars.clone() };
                    let expected = if semver {
                        let mut nums: Vec<u64> = Vec::new();
                        let mut pre: Vec<String> = Vec::new();
                        for c in core {
                            match int_of(c, vars) {
                                Some(n) if nums.len() < 3 => nums.push(n),
                                _ => pre.extend(text_of(c, vars)),
                            }
                        }
                        while nums.len() < 3 { nums.push(0); }
                        for c in extra {
                            match c {
                                C::Var(v) if secondary(v) => match v {
                                    Var::Epoch => if let Some(n) = vars.epoch { pre.push("epoch".into()); pre.push(n.to_string()); },
                                    Var::Post => if let Some(n) = vars.post { pre.push("post".into()); pre.push(n.to_string()); },
                                    Var::Dev => if let Some(n) = vars.dev { pre.push("dev".into()); pre.push(n.to_string()); },
                                    _ => if let Some(pr) = &vars.pre_release {
                                        pre.push(match pr.label { PreReleaseLabel::Alpha => "alpha", PreReleaseLabel::Beta => "beta", PreReleaseLabel::Rc => "rc" }.into());
                                        if let Some(n) = pr.number { pre.push(n.to_string()); }
                                    },
                                },
                                _ => pre.extend(text_of(c, vars)),
                            }
                        }
                        let mut b: Vec<String> = Vec::new();
                        for c in build { b.extend(text_of(c, vars)); }
                        let mut s = format!("{}.{}.{}", nums[0], nums[1], nums[2]);
                        if !pre.is_empty() { s.push('-'); s.push_str(&pre.join(".")); }
                        if !b.is_empty() { s.push('+'); s.push_str(&b.join(".")); }
                        s
                    } else {
                        let mut rel: Vec<u64> = Vec::new();
                        let mut local: Vec<String> = Vec::new();
                        for c in core {
                            match int_of(c, vars) { Some(n) => rel.push(n), None => local.extend(text_of(c, vars)) }
                        }
                        if rel.is_empty() { rel.push(0); }
                        let (mut epoch, mut pre, mut post, mut dev) = (0u64, String::new(), String::new(), String::new());
                        for c in extra {
                            match c {
                                C::Var(v) if secondary(v) => match v {
                                    Var::Epoch => if let Some(n) = vars.epoch { epoch = n; },
                                    Var::Post => if let Some(n) = vars.post { post = format!(".post{n}"); },
                                    Var::Dev => if let Some(n) = vars.dev { dev = format!(".dev{n}"); },
                                    _ => if let Some(pr) = &vars.pre_release {
                                        pre = format!("{}{}", match pr.label { PreReleaseLabel::Alpha => "a", PreReleaseLabel::Beta => "b", PreReleaseLabel::Rc => "rc" }, pr.number.unwrap_or(0));
                                    },
                                },
                                _ => local.extend(text_of(c, vars)),
                            }
                        }
                        for c in build { local.extend(text_of(c, vars)); }
                        let mut s = String::new();
                        if epoch != 0 { s.push_str(&format!("{epoch}!")); }
                        s.push_str(&rel.iter().map(|n| n.to_string()).collect::<Vec<_>>().join("."));
                        s.push_str(&pre); s.push_str(&post); s.push_str(&dev);
                        if !local.is_empty() { s.push('+'); s.push_str(&local.join(".")); }
                        s
                    };
                    let got = if semver { SemVer::from(zerv).to_string() } else { PEP440::from(zerv).to_string() };
                    // C01: "zerv's own check/parser accepts the string" and it is already in its printed (normal) form
                    if semver {
                        match SemVer::from_str(&got) {
                            Err(e) => out.cex(fam, format!("class=own-output-rejected core={core:?} extra_core={extra:?} build={build:?} branch={:?}: rendered {got:?} is rejected by zerv's own SemVer parser: {e}", vars.bumped_branch)),
                            Ok(p) => if p.to_string() != got { out.cex(fam, format!("class=own-output-not-fixed-point rendered {got:?} parses and prints as {:?}", p.to_string())); },
                        }
                    } else {
                        match PEP440::from_str(&got) {
                            Err(e) => out.cex(fam, format!("class=own-output-rejected core={core:?} extra_core={extra:?} build={build:?} branch={:?}: rendered {got:?} is rejected by zerv's own PEP 440 parser: {e}", vars.bumped_branch)),
                            Ok(p) => if p.to_string() != got { out.cex(fam, format!("class=own-output-not-fixed-point rendered {got:?} parses and prints as {:?} (not in normal form)", p.to_string())); },
                        }
                    }
                    if got != expected {
                        out.cex(fam, format!("core={core:?} extra_core={extra:?} build={build:?} vars={{major:{:?},minor:{:?},patch:{:?},epoch:{:?},pre_release:{:?},post:{:?},dev:{:?},distance:{:?},dirty:{:?},bumped_branch:{:?}}}: rendered {got:?}, the placement rule gives {expected:?}",
                            vars.major, vars.minor, vars.patch, vars.epoch, vars.pre_release, vars.post, vars.dev, vars.distance, vars.dirty, vars.bumped_branch));
                    }
                }
            }
        }
    }
}

// ------------------------------------------------------------------ parse → print round trips (C08, C09) and greatest tag (C10, C11)
// Bounded stand-ins for the parser/printer code behind the regexes (regex captures, split/map/collect, format!/join),
// which no contract reaches.  A `class=<name>` prefix names the obligation a disagreement is reported under.

fn semver_roundtrip_family(out: &mut Out) {
    let fam = "semver_roundtrip";
    let cores = ["0", "1", "10", "18446744073709551615"];
    let pre_ids = ["0", "1", "23", "a", "-", "a-1", "0a", "alpha", "1a", "00a", "-0", "A", "rc", "18446744073709551615",
                   "18446744073709551616", "99999999999999999999999", "100000000000000000000"];
    let build_ids = ["0", "00", "01a", "b-", "-", "007", "1", "18446744073709551616", "Z"];
    let mut pres: Vec<String> = vec![String::new()];
    for a in pre_ids {
        pres.push(format!("-{a}"));
        for b in pre_ids {
            pres.push(format!("-{a}.{b}"));
        }
    }
    pres.push("-alpha.1.beta".into());
    pres.push("-0.0.0".into());
    let mut builds: Vec<String> = vec![String::new()];
    for a in build_ids {
        builds.push(format!("+{a}"));
    }
    builds.push("+00.b-.007".into());
    builds.push("+a.18446744073709551616".into());
    let big = |s: &str| s.split(|c: char| !c.is_ascii_digit()).any(|run| run.len() > 20 || (run.len() == 20 && run > "18446744073709551615"));
    for (ci, core) in [("0", "0", "0"), ("1", "2", "3"), ("10", "0", "18446744073709551615"), ("0", "18446744073709551615", "1")].iter().enumerate() {
        let _ = cores;
        for pre in &pres {
            for build in &builds {
                if ci > 1 && !build.is_empty() && pre.len() > 8 {
                    continue;
                }
                for v in ["", "v"] {
                    out.cases += 1;
                    let body = format!("{}.{}.{}{pre}{build}", core.0, core.1, core.2);
                    let input = format!("{v}{body}");
                    let class = if big(&format!("{pre}{build}")) { "class=identifier-above-u64-max " } else { "" };
                    match SemVer::from_str(&input) {
                        Err(e) => out.cex(fam, format!("{class}{input:?} matches the SemVer 2.0.0 grammar but was rejected: {e}")),
                        Ok(p) => {
                            let printed = p.to_string();
                            if printed != body {
                                out.cex(fam, format!("{class}{input:?} parsed and printed gives {printed:?}, not the input"));
                            }
                        }
                    }
                }
            }
        }
    }
    if out.thorough {
        // random strings generated from the SemVer 2.0.0 grammar (identifiers up to 6 characters, lists up to 4, numbers of any width)
        let alnum: Vec<char> = "0123456789abcxyzABCXYZ-".chars().collect();
        let digits: Vec<char> = "0123456789".chars().collect();
        for _ in 0..60000 {
            out.cases += 1;
            let mut number = |out: &mut Out, max: usize| -> String {
                let mut t = out.text(&digits, max);
                while t.len() > 1 && t.starts_with('0') { t.remove(0); }
                if t.is_empty() { t.push('0'); }
                t
            };
            let body_core = format!("{}.{}.{}", number(out, 12), number(out, 3), number(out, 19));
            let mut pre = String::new();
            let mut wide = false;
            if out.below(3) > 0 {
                let n = 1 + out.below(4);
                let mut ids = Vec::new();
                for _ in 0..n {
                    if out.below(3) == 0 {
                        let t = number(out, 24);
                        if t.len() > 19 { wide = true; }
                        ids.push(t);
                    } else {
                        let mut t = out.text(&alnum, 6);
                        if t.is_empty() || t.chars().all(|c| c.is_ascii_digit()) { t.push('-'); }
                        ids.push(t);
                    }
                }
                pre = format!("-{}", ids.join("."));
            }
            let mut build = String::new();
            if out.below(3) == 0 {
                let n = 1 + out.below(3);
                let ids: Vec<String> = (0..n).map(|_| { let mut t = out.text(&alnum, 5); if t.is_empty() { t.push('0'); } if t.chars().all(|c| c.is_ascii_digit()) && t.len() > 19 { wide = true; } t }).collect();
                build = format!("+{}", ids.join("."));
            }
            let body = format!("{body_core}{pre}{build}");
            let input = if out.below(4) == 0 { format!("v{body}") } else { body.clone() };
            let class = if wide { "class=identifier-above-u64-max " } else { "" };
            match SemVer::from_str(&input) {
                Err(e) => out.cex(fam, format!("{class}{input:?} matches the SemVer 2.0.0 grammar but was rejected: {e}")),
                Ok(p) => {
                    let printed = p.to_string();
                    if printed != body {
                        out.cex(fam, format!("{class}{input:?} parsed and printed gives {printed:?}, not the input"));
                    }
                }
            }
        }
    }
    for core in ["18446744073709551616.0.0", "0.18446744073709551616.0", "v0.0.99999999999999999999"] {
        out.cases += 1;
        match SemVer::from_str(core) {
            Err(e) => out.cex(fam, format!("class=core-number-above-u64-max {core:?} matches the SemVer 2.0.0 grammar but was rejected: {e}")),
            // refusing what cannot be represented is the recorded finding; accepting it as another number is a different matter
            Ok(p) => if p.to_string() != core.trim_start_matches('v') {
                out.cex(fam, format!("class=core-number-silently-changed {core:?} was accepted and prints as {:?}", p.to_string()));
            },
        }
    }
    for bad in ["+1.0.0", "1.+0.0", "1.0.+0", "-1.0.0", "1.0.0-+1", "1 .0.0", "1.0.0.", ".1.0.0", "1.0.0+a+b", "01.0.0", "1.0", "1.0.0-", "1.0.0-01", "1.0.0+", "1.0.0-a..b", " 1.0.0", "1.0.0 ", "1.0.0\n", "1.0.0-é", "١.0.0", "V1.0.0", "vv1.0.0",
                "1.0.0-a+", "1.0.0+a+b", "1.0.0-a_b", "1.00.0", "1.0.0-1.02", "", "v", "1.0.0.0", "1.0.0-٣"] {
        out.cases += 1;
        if SemVer::from_str(bad).is_ok() {
            out.cex(fam, format!("{bad:?} is outside the SemVer 2.0.0 grammar but was accepted"));
        }
    }
}

fn pep440_roundtrip_family(out: &mut Out) {
    let fam = "pep440_roundtrip";
    // (spelling, normal form) per field; numbers with leading zeros and above u32::MAX included
    let epochs = [("", ""), ("0!", ""), ("2!", "2!"), ("002!", "2!"), ("4294967295!", "4294967295!"), ("4294967296!", "4294967296!"), ("00000000003!", "3!")];
    let releases = [("1", "1"), ("1.0", "1.0"), ("0.1.02", "0.1.2"), ("2024.3.15", "2024.3.15"), ("1.4294967296", "1.4294967296"), ("007", "7"), ("1.00000000002.3", "1.2.3")];
    let mut pres: Vec<(String, String)> = vec![("".into(), "".into())];
    for (sp, nf) in [("a", "a"), ("alpha", "a"), ("b", "b"), ("beta", "b"), ("c", "rc"), ("rc", "rc"), ("pre", "rc"), ("preview", "rc"), ("A", "a"), ("RC", "rc"), ("Beta", "b")] {
        for (i, s1) in ["", ".", "-", "_"].iter().enumerate() {
            for (j, (n, nn)) in [("", "0"), ("0", "0"), ("1", "1"), ("012", "12"), ("4294967296", "4294967296"), ("00000000005", "5")].iter().enumerate() {
                if (i + j) % 2 == 1 && sp.len() > 2 {
                    continue;
                }
                let s2 = if n.is_empty() { "" } else { ["", ".", "-", "_"][(i + j) % 4] };
                pres.push((format!("{s1}{sp}{s2}{n}"), format!("{nf}{nn}")));
            }
        }
    }
    let posts = [("", ""), ("-1", ".post1"), (".post", ".post0"), ("post5", ".post5"), ("-rev-05", ".post5"), ("_r_0", ".post0"), (".POST.3", ".post3"),
                 ("-4294967296", ".post4294967296"), (".post4294967296", ".post4294967296"), ("-00000000004", ".post4"), (".post000000000006", ".post6")];
    let devs = [("", ""), (".dev", ".dev0"), ("dev3", ".dev3"), ("-DEV_03", ".dev3"), (".dev4294967296", ".dev4294967296"), (".dev00000000007", ".dev7")];
    let locals = [("", ""), ("+abc", "+abc"), ("+ABC.1", "+abc.1"), ("+a-b_c", "+a.b.c"), ("+01.x", "+1.x"), ("+4294967296", "+4294967296"), ("+0A.00", "+0a.0"), ("+00000000000000000000001", "+1"),
                  ("+04294967296", "+4294967296"), ("+x.00099999999999_Y", "+x.99999999999.y"),
                  // a zero-padded numeric part above u64::MAX (a strip through parse::<u64>() shows only there) and text labels longer than 63 / 64 characters (seeds V09_1, V09_2)
                  ("+00099999999999999999999", "+99999999999999999999"), ("+abc.0018446744073709551616", "+abc.18446744073709551616"),
                  ("+ccccccccccccccccccccccccccccccccccccccccccccccccccccccccccccccccx", "+ccccccccccccccccccccccccccccccccccccccccccccccccccccccccccccccccx"),
                  ("+Aaaaaaaaaaaaaaaaaaaaaaaaaaaaaaaaaaaaaaaaaaaaaaaaaaaaaaaaaaaaaaaaaaaaaaaaaaaaaaaaaaaaaaaaaaaaaaaaaaaaaaaaaaaaaaaaaaaaaaaaaaaaaaaaaaaaaaaaaa.7", "+aaaaaaaaaaaaaaaaaaaaaaaaaaaaaaaaaaaaaaaaaaaaaaaaaaaaaaaaaaaaaaaaaaaaaaaaaaaaaaaaaaaaaaaaaaaaaaaaaaaaaaaaaaaaaaaaaaaaaaaaaaaaaaaaaaaaaaaaaa.7")];
    let over = |s: &str| s.split(|c: char| !c.is_ascii_digit()).any(|run| {
        let t = run.trim_start_matches('0');
        t.len() > 10 || (t.len() == 10 && t > "4294967295")
    });
    let mut k = 0usize;
    for (es, en) in epochs {
        for (rs, rn) in releases {
            for (ps, pn) in &pres {
                for (qs, qn) in posts {
                    for (ds, dn) in devs {
                        for (ls, ln) in locals {
                            k += 1;
                            // thin the product: keep every pair of fields together at least once
                            let busy = [!es.is_empty(), rs.len() > 1, !ps.is_empty(), !qs.is_empty(), !ds.is_empty(), !ls.is_empty()].iter().filter(|b| **b).count();
                            if busy > 3 && k % 37 != 0 {
                                continue;
                            }
                            // `1-1` style implicit post directly after a pre-release without number is ambiguous with the pre number: skip
                            if qs.starts_with('-') && qs[1..].chars().all(|c| c.is_ascii_digit()) && !ps.is_empty() && !ps.chars().last().unwrap().is_ascii_digit() {
                                continue;
                            }
                            for v in ["", "v", "V"] {
                                if !v.is_empty() && k % 5 != 0 {
                                    continue;
                                }
                                out.cases += 1;
                                let input = format!("{v}{es}{rs}{ps}{qs}{ds}{ls}");
                                let normal = format!("{en}{rn}{pn}{qn}{dn}{ln}");
                                let class = if over(&format!("{es}{rs}{ps}{qs}{ds}")) { "class=number-above-u32-max " }
                                    else if over(ls) { "class=local-number-above-u32-max " } else { "" };
                                let parsed = match PEP440::from_str(&input) {
                                    Ok(p) => p,
                                    Err(e) => {
                                        out.cex(fam, format!("{class}{input:?} matches the PEP 440 grammar but was rejected: {e}"));
                                        continue;
                                    }
                                };
                                let printed = parsed.to_string();
                                if printed != normal {
                                    out.cex(fam, format!("{class}{input:?} prints as {printed:?}; the PEP 440 normal form is {normal:?}"));
                                    continue;
                                }
                                match PEP440::from_str(&printed) {
                                    Err(e) => out.cex(fam, format!("{class}normal form {printed:?} of {input:?} was rejected: {e}")),
                                    Ok(again) => {
                                        if again.to_string() != printed {
                                            out.cex(fam, format!("{class}normalising {input:?} is not idempotent: {printed:?} then {:?}", again.to_string()));
                                        }
                                        if again.cmp(&parsed) != Ordering::Equal || again != parsed {
                                            out.cex(fam, format!("{class}{input:?} does not compare equal to its normal form {printed:?}"));
                                        }
                                    }
                                }
                            }
                        }
                    }
                }
            }
        }
    }
    for bad in [" 1.0", "1.0 ", "1.0\n", "1..0", "1.0+", "1.0+a..b", "1.0-", "1.0a1b2", "a1", "1.0.dev1.post1", "1.0+é", "١.0", "1.0rc١", "1.0+a+b", "", "v", "1!", "!1.0", "1.0.postK", "1.0preſ1",
                "+1", "+1.2.3", "1.+2.3", "1.2.+3", "+01.2", "-1.0", "1.-2", "+1!1.0", "1!+1.0", "1 .0", "1. 0", "1.0 a1", "vv1.0", "1.0.", ".1.0", "1.0+1.", "1.0++a"] {
        out.cases += 1;
        if PEP440::from_str(bad).is_ok() {
            out.cex(fam, format!("{bad:?} is outside the PEP 440 grammar but was accepted"));
        }
    }
}

fn tag_max_family(out: &mut Out, semver: bool) {
    use zerv::vcs::git_utils::GitUtils;
    use zerv::version::VersionObject;
    let fam = if semver { "tag_max_semver" } else { "tag_max_pep440" };
    let pool: Vec<&str> = if semver {
        vec!["1.0.0", "v1.0.0", "1.0.0-alpha", "1.0.0-alpha.1", "1.0.0-alpha.beta", "1.0.0-beta", "1.0.0-beta.2", "1.0.0-beta.11", "1.0.0-rc.1",
             "1.0.0+build", "1.0.1-0", "0.9.9", "1.0.0-1", "1.0.0-a", "1.0.0-A", "2.0.0-0", "1.10.0", "1.9.0", "not-a-version", "1.0",
             "0.9.0-20240115123045123456", "1.0.0-rc2", "1.0.0-rc10",
             // a stable tag and a pre-release of a later version whose number crosses a digit-count boundary (a textual shortcut on the base part shows only there: seed V10_2)
             "1.2.9", "v1.2.10-rc.1", "1.10.0-rc.1"]
    } else {
        vec!["1.0", "v1.0.0", "1.0a1", "1.0.alpha.1", "1.0b2", "1.0rc1", "1.0.post1", "1.0-1", "1.0.dev1", "1.0a1.dev1", "1.0.post1.dev2", "1!0.1", "0!1.0",
             "1.0+abc", "1.0+abc.1", "1.0+1", "1.0.1", "1.10", "1.9", "not-a-version", "1.0a"]
    };
    let format = if semver { "semver" } else { "pep440" };
    let n = pool.len();
    let key = |o: &VersionObject| -> String { match o { VersionObject::SemVer(s) => s.to_string(), VersionObject::PEP440(p) => p.to_string() } };
    let geq = |a: &VersionObject, b: &VersionObject| -> bool {
        match (a, b) {
            (VersionObject::SemVer(x), VersionObject::SemVer(y)) => sv_precedence(x, y) != Ordering::Less,
            (VersionObject::PEP440(x), VersionObject::PEP440(y)) => pep_key_prec(x, y) != Ordering::Less,
            _ => false,
        }
    };
    for i in 0..n {
        for j in 0..n {
            for k in 0..n {
                if k % 3 != (i + j) % 3 && k != i {
                    continue;
                }
                out.cases += 1;
                let tags: Vec<String> = if k == i { vec![pool[i].to_string(), pool[j].to_string()] } else { vec![pool[i].to_string(), pool[j].to_string(), pool[k].to_string()] };
                let valid = GitUtils::filter_only_valid_tags(&tags, format);
                // every tag that parses in the format is kept, none is invented
                for t in &tags {
                    let parses = if semver { SemVer::from_str(t).is_ok() } else { PEP440::from_str(t).is_ok() };
                    if parses != valid.iter().any(|(s, _)| s == t) {
                        out.cex(fam, format!("tags {tags:?}: filter_only_valid_tags keeps {:?} although {t:?} parses = {parses}", valid.iter().map(|(s, _)| s.clone()).collect::<Vec<_>>()));
                    }
                }
                match GitUtils::find_max_version_tag(&valid) {
                    Err(e) => out.cex(fam, format!("tags {tags:?}: find_max_version_tag failed: {e}")),
                    Ok(None) => {
                        if !valid.is_empty() {
                            out.cex(fam, format!("tags {tags:?}: no greatest tag returned although {} are valid", valid.len()));
                        }
                    }
                    Ok(Some(best)) => {
                        let Some((_, bo)) = valid.iter().find(|(s, _)| *s == best) else {
                            out.cex(fam, format!("tags {tags:?}: greatest tag {best:?} is not one of the valid tags"));
                            continue;
                        };
                        for (s, o) in &valid {
                            if !geq(bo, o) {
                                out.cex(fam, format!("tags {tags:?}: returned {best:?} ({}) but {s:?} ({}) has higher precedence", key(bo), key(o)));
                            }
                        }
                    }
                }
            }
        }
    }
}

// ------------------------------------------------------------------ sequencing of the levels (C05): apply_component_processing
// "the result equals processing the levels epoch, major, minor, patch, core section, pre-release label, pre-release number, post,
// dev, extra-core section, build section in that order": the real per-level handlers (each under a Verus contract) are applied in
// the documented order by hand and the outcome is compared with the real apply_component_processing.

fn bump_sequence_family(out: &mut Out) {
    use zerv::cli::version::args::resolved::ResolvedArgs;
    use zerv::cli::version::args::VersionArgs;
    use zerv::version::zerv::schema::SchemaPartName;
    use zerv::version::zerv::{PreReleaseVar, Zerv, ZervSchema, ZervVars};
    let fam = "bump_sequence";
    let starts = [
        ZervVars { major: Some(1), minor: Some(2), patch: Some(3), ..Default::default() },
        ZervVars { major: Some(1), minor: Some(2), patch: Some(3), epoch: Some(2), pre_release: Some(PreReleaseVar { label: PreReleaseLabel::Beta, number: Some(4) }), post: Some(5), dev: Some(6), ..Default::default() },
        ZervVars { major: Some(0), minor: None, patch: Some(9), pre_release: Some(PreReleaseVar { label: PreReleaseLabel::Alpha, number: None }), post: Some(1), ..Default::default() },
    ];
    let dummy = Zerv::new(ZervSchema::pep440_default().unwrap(), ZervVars::default()).unwrap();
    let base = match ResolvedArgs::resolve(&VersionArgs::default(), &dummy) { Ok(a) => a, Err(e) => { out.cex(fam, format!("cannot build default arguments: {e}")); return; } };
    // per numeric level: (override, bump); levels: 0 epoch 1 major 2 minor 3 patch 4 pre-release number 5 post 6 dev; 7 = label (override text, bump text)
    let choices: [(Option<u32>, Option<u32>); 4] = [(None, None), (Some(7), None), (None, Some(2)), (Some(7), Some(1))];
    let labels: [(Option<&str>, Option<&str>); 4] = [(None, None), (Some("rc"), None), (None, Some("beta")), (Some("alpha"), Some("rc"))];
    let set = |a: &mut ResolvedArgs, level: usize, c: (Option<u32>, Option<u32>)| {
        let b = c.1.map(Some);
        match level {
            0 => { a.overrides.epoch = c.0; a.bumps.bump_epoch = b; }
            1 => { a.overrides.major = c.0; a.bumps.bump_major = b; }
            2 => { a.overrides.minor = c.0; a.bumps.bump_minor = b; }
            3 => { a.overrides.patch = c.0; a.bumps.bump_patch = b; }
            4 => { a.overrides.pre_release_num = c.0; a.bumps.bump_pre_release_num = b; }
            5 => { a.overrides.post = c.0; a.bumps.bump_post = b; }
            _ => { a.overrides.dev = c.0; a.bumps.bump_dev = b; }
        }
    };
    for start in &starts {
        for i in 0..7 {
            for j in (i + 1)..8 {
                for ci in 1..4 {
                    for cj in 1..4 {
                        for extra in [None, Some("1"), Some("-1=5")] {
                            out.cases += 1;
                            let mut args = base.clone();
                            set(&mut args, i, choices[ci]);
                            if j < 7 { set(&mut args, j, choices[cj]); } else {
                                args.overrides.pre_release_label = labels[cj].0.map(String::from);
                                args.bumps.bump_pre_release_label = labels[cj].1.map(String::from);
                            }
                            match extra {
                                Some("1") => args.bumps.bump_core = vec!["1".to_string()],
                                Some(x) => args.overrides.core = vec![x.to_string()],
                                None => {}
                            }
                            let mut real = Zerv::new(ZervSchema::pep440_default().unwrap(), start.clone()).unwrap();
                            let r_real = real.apply_component_processing(&args);
                            let mut hand = Zerv::new(ZervSchema::pep440_default().unwrap(), start.clone()).unwrap();
                            let r_hand = (|| -> Result<(), zerv::error::ZervError> {
                                hand.process_epoch(args.overrides.epoch, args.bumps.bump_epoch.flatten())?;
                                hand.process_major(args.overrides.major, args.bumps.bump_major.flatten())?;
                                hand.process_minor(args.overrides.minor, args.bumps.bump_minor.flatten())?;
                                hand.process_patch(args.overrides.patch, args.bumps.bump_patch.flatten())?;
                                hand.process_schema_section(SchemaPartName::Core, &args.overrides.core, &args.bumps.bump_core)?;
                                hand.process_pre_release_label(&args)?;
                                hand.process_pre_release_num(args.overrides.pre_release_num, args.bumps.bump_pre_release_num.flatten())?;
                                hand.process_post(args.overrides.post, args.bumps.bump_post.flatten())?;
                                hand.process_dev(args.overrides.dev, args.bumps.bump_dev.flatten())?;
                                hand.process_schema_section(SchemaPartName::ExtraCore, &args.overrides.extra_core, &args.bumps.bump_extra_core)?;
                                hand.process_schema_section(SchemaPartName::Build, &args.overrides.build, &args.bumps.bump_build)?;
                                Ok(())
                            })();
                            let desc = format!("start {{epoch:{:?},major:{:?},minor:{:?},patch:{:?},pre:{:?},post:{:?},dev:{:?}}} level {i} {:?} + level {j} {:?} core-op {extra:?}",
                                start.epoch, start.major, start.minor, start.patch, start.pre_release, start.post, start.dev, choices[ci], if j < 7 { format!("{:?}", choices[cj]) } else { format!("{:?}", labels[cj]) });
                            match (r_real, r_hand) {
                                (Ok(()), Ok(())) => {
                                    let mut rv = real.vars.clone();
                                    rv.bumped_timestamp = hand.vars.bumped_timestamp;
                                    if rv != hand.vars || real.schema != hand.schema {
                                        out.cex(fam, format!("{desc}: apply_component_processing gives epoch {:?} {:?}.{:?}.{:?} pre {:?} post {:?} dev {:?}; the levels in the documented order give epoch {:?} {:?}.{:?}.{:?} pre {:?} post {:?} dev {:?}",
                                            real.vars.epoch, real.vars.major, real.vars.minor, real.vars.patch, real.vars.pre_release, real.vars.post, real.vars.dev,
                                            hand.vars.epoch, hand.vars.major, hand.vars.minor, hand.vars.patch, hand.vars.pre_release, hand.vars.post, hand.vars.dev));
                                    }
                                }
                                (Err(_), Err(_)) => {}
                                (a, b) => out.cex(fam, format!("{desc}: apply_component_processing is_ok={} but the levels in the documented order is_ok={}", a.is_ok(), b.is_ok())),
                            }
                        }
                    }
                }
            }
        }
    }
}

// ------------------------------------------------------------------ Zerv RON round trip (C12): serde/ron code no contract reaches

fn ron_roundtrip_family(out: &mut Out) {
    use zerv::version::zerv::bump::precedence::{Precedence, PrecedenceOrder};
    use zerv::version::zerv::components::{Component as C, Var};
    use zerv::version::zerv::core::{PreReleaseVar, Zerv};
    use zerv::version::zerv::{ZervSchema, ZervVars};
    use zerv::schema::ZervSchemaPreset as P;
    let fam = "ron_roundtrip";
    let texts = ["", "plain", "with \"quotes\"", "back\\slash", "new\nline", "tab\there", "ünï/çødé-日本", "(paren) [brack] {brace}", "r#\"raw\"#", "'single'", "a,b: c", "//comment", "0", " lead and trail "];
    let mut schemas: Vec<ZervSchema> = vec![];
    for p in [P::StandardBase, P::StandardBasePrerelease, P::StandardBasePrereleasePost, P::StandardBasePrereleasePostDev, P::StandardBaseContext, P::StandardBasePrereleaseContext,
              P::StandardBasePrereleasePostContext, P::StandardBasePrereleasePostDevContext, P::CalverBase, P::CalverBasePrerelease, P::CalverBasePrereleasePost,
              P::CalverBasePrereleasePostDev, P::CalverBaseContext, P::CalverBasePrereleaseContext, P::CalverBasePrereleasePostContext, P::CalverBasePrereleasePostDevContext] {
        schemas.push(p.schema());
    }
    let core = vec![C::Var(Var::Major), C::Var(Var::Minor), C::Var(Var::Patch)];
    for order in [vec![], vec![Precedence::Major], vec![Precedence::Dev, Precedence::Post, Precedence::Patch, Precedence::Minor, Precedence::Major],
                  vec![Precedence::Epoch, Precedence::Major, Precedence::Minor, Precedence::Patch, Precedence::Core, Precedence::PreReleaseLabel, Precedence::PreReleaseNum, Precedence::Post, Precedence::Dev, Precedence::ExtraCore, Precedence::Build],
                  // all eleven levels in another order (an order-insensitive comparison with the built-in order would call this "default")
                  vec![Precedence::Epoch, Precedence::Minor, Precedence::Major, Precedence::Patch, Precedence::Core, Precedence::PreReleaseLabel, Precedence::PreReleaseNum, Precedence::Post, Precedence::Dev, Precedence::ExtraCore, Precedence::Build],
                  vec![Precedence::Build, Precedence::ExtraCore, Precedence::Dev, Precedence::Post, Precedence::PreReleaseNum, Precedence::PreReleaseLabel, Precedence::Core, Precedence::Patch, Precedence::Minor, Precedence::Major, Precedence::Epoch]] {
        if let Ok(s) = ZervSchema::new_with_precedence(core.clone(), vec![C::Var(Var::Epoch), C::Var(Var::PreRelease)], vec![C::Var(Var::BumpedBranch)], PrecedenceOrder::from_precedences(order.clone())) {
            schemas.push(s);
        }
        if let Ok(s) = ZervSchema::new_with_precedence(vec![], vec![], vec![C::UInt(1)], PrecedenceOrder::from_precedences(order)) {
            schemas.push(s);
        }
    }
    for t in texts {
        if let Ok(s) = ZervSchema::new(core.clone(), vec![C::Str(t.to_string()), C::UInt(u64::MAX)], vec![C::Var(Var::Custom(t.to_string())), C::Var(Var::Timestamp("YYYY".into())), C::Str(t.to_string())]) {
            schemas.push(s);
        }
    }
    let mut varsets: Vec<ZervVars> = vec![ZervVars::default()];
    for t in texts {
        varsets.push(ZervVars {
            major: Some(1), minor: Some(0), patch: Some(u64::MAX), epoch: Some(0),
            pre_release: Some(PreReleaseVar { label: PreReleaseLabel::Rc, number: None }), post: Some(3), dev: None,
            distance: Some(7), dirty: Some(true), bumped_branch: Some(t.to_string()), bumped_commit_hash: Some(t.to_string()), bumped_timestamp: Some(1710511845),
            last_branch: Some(t.to_string()), last_commit_hash: None, last_timestamp: Some(0), last_tag_version: Some(t.to_string()),
            custom: serde_json::json!({ "k": t, "nested": { "n": [1, 2.5, null, true, t], "o": {} }, t: 1 }),
        });
    }
    varsets.push(ZervVars { custom: serde_json::json!(null), ..Default::default() });
    varsets.push(ZervVars { custom: serde_json::json!([1, "x"]), pre_release: Some(PreReleaseVar { label: PreReleaseLabel::Alpha, number: Some(0) }), ..Default::default() });
    varsets.push(ZervVars { custom: serde_json::json!("just text"), major: Some(0), ..Default::default() });
    for schema in &schemas {
        for vars in &varsets {
            out.cases += 1;
            let z = Zerv { schema: schema.clone(), vars: vars.clone() };
            let text = z.to_string();
            let back = match Zerv::from_str(&text) {
                Ok(b) => b,
                Err(e) => { out.cex(fam, format!("class=emitted-object-rejected an emitted Zerv object does not parse back: {e}; object starts {:?}", text.chars().take(160).collect::<String>())); continue; }
            };
            // `==` on the IndexMap-backed precedence order ignores the order of its entries, so the printed (Debug) forms are compared as well
            if back != z || format!("{back:?}") != format!("{z:?}") {
                let what = if back.schema != z.schema || format!("{:?}", back.schema) != format!("{:?}", z.schema) { "schema" } else { "vars" };
                out.cex(fam, format!("class=not-identical emitted Zerv object parses back to a different object ({what} differ): emitted {:?}", text.chars().take(400).collect::<String>().replace('\n', " ")));
                continue;
            }
            let again = back.to_string();
            if again != text {
                out.cex(fam, format!("class=re-emission-differs re-emitting the parsed object is not byte-identical: first {:?} then {:?}", text.chars().take(200).collect::<String>(), again.chars().take(200).collect::<String>()));
            }
            let (a, b) = (SemVer::from(z.clone()).to_string(), SemVer::from(back.clone()).to_string());
            let (c, d) = (PEP440::from(z.clone()).to_string(), PEP440::from(back).to_string());
            if a != b || c != d {
                out.cex(fam, format!("class=pipe-rendering-differs rendering through the RON pipe differs: direct {a:?} / {c:?}, piped {b:?} / {d:?}"));
            }
        }
    }
}

// ------------------------------------------------------------------ flow rules end to end (C04): the template-encoded arithmetic
// The rules of the statement live in Tera template strings (src/cli/flow/args/bumps.rs) evaluated by the interpreter across two
// pipeline passes: no function contract states them.  The real flow pipeline is run on (tag, branch, distance, dirty, flags)
// combinations and its resulting variables are compared with the statement, written here as plain arithmetic.

fn flow_rules_family(out: &mut Out) {
    use clap::Parser;
    use zerv::cli::flow::{run_flow_pipeline, FlowArgs};
    use zerv::version::zerv::core::Zerv;
    let fam = "flow_rules";
    // (tag text, major, minor, patch, pre-release?, post)
    let tags: [(&str, u64, u64, u64, bool, Option<u64>); 3] = [("v1.2.3", 1, 2, 3, false, None), ("v1.2.3-beta.4", 1, 2, 3, true, None), ("v2.0.9-rc.1.post.5", 2, 0, 9, true, Some(5))];
    let branches = ["main", "develop", "release/7/x", "release/x", "releases/3", "feature/42-thing", "feature/12/x", "a", "d", "hotfix//9", "日本語"];
    let first_digits = |path: &str| -> Option<u32> { path.split('/').find(|s| !s.is_empty() && s.chars().all(|c| c.is_ascii_digit())).and_then(|s| s.parse().ok()) };
    let run = |argv: &Vec<String>| -> Result<Zerv, String> {
        let args = FlowArgs::try_parse_from(argv.iter()).map_err(|e| format!("arguments rejected: {}", e.to_string().lines().next().unwrap_or("")))?;
        let text = run_flow_pipeline(args, None).map_err(|e| e.to_string())?;
        Zerv::from_str(&text).map_err(|e| format!("output is not a Zerv object: {e}"))
    };
    // argument validation of flow: documented ranges and conflicts are refused, and --post replaces the tag's post before the bump
    for (extra, must_fail) in [(vec!["--hash-branch-len", "0"], true), (vec!["--hash-branch-len", "11"], true), (vec!["--hash-branch-len", "10"], false),
                               (vec!["--clean", "--distance", "2"], true), (vec!["--clean", "--dirty"], true), (vec!["--post-mode", "sometimes"], true),
                               (vec!["--pre-release-label", "gamma"], true), (vec!["--schema", "calver"], true), (vec!["--schema", "standard-base-prerelease-post"], false)] {
        out.cases += 1;
        let mut argv: Vec<String> = vec!["flow".into(), "--source".into(), "none".into(), "--tag-version".into(), "v1.2.3".into(), "--bumped-branch".into(), "main".into(), "--output-format".into(), "zerv".into()];
        if !extra.contains(&"--distance") && !extra.contains(&"--clean") { argv.push("--distance".into()); argv.push("2".into()); }
        argv.extend(extra.iter().map(|s| s.to_string()));
        let r = run(&argv);
        if r.is_ok() == must_fail {
            out.cex(fam, format!("flow {:?}: {}", extra, if must_fail { "accepted although the documented range / conflict rules refuse it".to_string() } else { format!("refused: {}", r.err().unwrap_or_default()) }));
        }
    }
    for (post_flag, mode, distance, want) in [(7u64, "commit", 3u64, 10u64), (7, "tag", 3, 8), (0, "commit", 2, 2)] {
        out.cases += 1;
        let argv: Vec<String> = ["flow", "--source", "none", "--tag-version", "v2.0.9-rc.1.post.5", "--bumped-branch", "main", "--output-format", "zerv", "--no-dirty",
            "--distance", &distance.to_string(), "--post-mode", mode, "--post", &post_flag.to_string()].iter().map(|s| s.to_string()).collect();
        match run(&argv) {
            Ok(z) => if z.vars.post != Some(want) { out.cex(fam, format!("--post {post_flag} with distance {distance} in {mode} mode gives post {:?}; the statement gives {want}", z.vars.post)); },
            Err(e) => out.cex(fam, format!("--post {post_flag} with distance {distance} in {mode} mode fails: {e}")),
        }
    }
    // ---- values at the representation limits and unusual tags (each class is one recorded finding or one repaired defect)
    {
        let go = |extra: &[&str]| -> Result<Zerv, String> {
            let mut argv: Vec<String> = ["flow", "--source", "none", "--output-format", "zerv", "--no-dirty"].iter().map(|s| s.to_string()).collect();
            argv.extend(extra.iter().map(|s| s.to_string()));
            run(&argv)
        };
        // "nothing changed at a clean tagged commit" / "post = tag's post + distance": also for a post above u32::MAX (post is a u64 in Zerv)
        out.cases += 1;
        match go(&["--tag-version", "1.2.3-post.4294967296", "--bumped-branch", "main", "--distance", "0"]) {
            Ok(z) => if z.vars.post != Some(4294967296) { out.cex(fam, format!("class=value-above-u32-max clean commit at tag 1.2.3-post.4294967296: post is {:?}", z.vars.post)); },
            Err(e) => out.cex(fam, format!("class=value-above-u32-max clean commit at tag 1.2.3-post.4294967296: flow fails ({e}); `zerv version` accepts the same tag")),
        }
        out.cases += 1;
        match go(&["--tag-version", "1.2.3-post.4294967295", "--bumped-branch", "main", "--distance", "2"]) {
            Ok(z) => if z.vars.post != Some(4294967297) { out.cex(fam, format!("class=value-above-u32-max tag post 4294967295 + distance 2: post is {:?}, the statement gives 4294967297", z.vars.post)); },
            Err(e) => out.cex(fam, format!("class=value-above-u32-max tag post 4294967295 + distance 2: flow fails ({e})")),
        }
        // "patch+1 iff the tag has no pre-release": also for tags with fewer than three release numbers and without any tag
        for (args, want) in [(vec!["--tag-version", "1", "--bumped-branch", "main", "--distance", "1"], (Some(1u64), 0u64, 1u64)),
                             (vec!["--tag-version", "1.2", "--bumped-branch", "main", "--distance", "1"], (Some(1), 2, 1)),
                             (vec!["--bumped-branch", "main", "--distance", "1"], (None, 0, 1))] {
            out.cases += 1;
            let mut a = args.clone();
            a.extend(["--output-format", "semver"]);
            let mut argv: Vec<String> = ["flow", "--source", "none", "--no-dirty"].iter().map(|s| s.to_string()).collect();
            argv.extend(a.iter().map(|s| s.to_string()));
            let rendered = FlowArgs::try_parse_from(argv.iter()).map_err(|e| e.to_string()).and_then(|fa| run_flow_pipeline(fa, None).map_err(|e| e.to_string()));
            let expect_core = format!("{}.{}.{}-", want.0.unwrap_or(0), want.1, want.2);
            match rendered {
                Ok(text) => if !text.starts_with(&expect_core) { out.cex(fam, format!("class=fewer-than-three-release-numbers flow {:?} renders {text:?}; patch+1 gives a version starting with {expect_core:?}", args)); },
                Err(e) => out.cex(fam, format!("class=fewer-than-three-release-numbers flow {:?} fails: {e}", args)),
            }
        }
        // "else the first all-digit path segment after the prefix": also when that segment does not fit the 32-bit number field
        out.cases += 1;
        match go(&["--tag-version", "1.2.3", "--bumped-branch", "release/4294967296/5", "--distance", "1"]) {
            Ok(z) => { let n = z.vars.pre_release.as_ref().and_then(|p| p.number); if n != Some(4294967296) { out.cex(fam, format!("class=branch-number-above-u32-max branch release/4294967296/5: pre-release number {n:?}; the first all-digit segment is 4294967296 (and the next one 5)")); } },
            Err(e) => out.cex(fam, format!("class=branch-number-above-u32-max branch release/4294967296/5: flow fails ({e})")),
        }
        // the rules of the statement do not depend on the schema's precedence list
        let schema = "(core:[var(Major),var(Minor),var(Patch)], extra_core:[var(Epoch),var(PreRelease),var(Post),var(Dev)], build:[var(BumpedBranch),var(Distance)], precedence_order: ORDER)";
        for order in ["[]", "[Major,Minor,Patch]", "[PreReleaseLabel,PreReleaseNum,Post,Dev,Major,Minor,Patch]"] {
            out.cases += 1;
            let ron = schema.replace("ORDER", order);
            match go(&["--tag-version", "1.2.3", "--bumped-branch", "main", "--distance", "2", "--schema-ron", &ron]) {
                Ok(z) => if z.vars.patch != Some(4) || z.vars.major != Some(1) || z.vars.post != Some(2) || z.vars.pre_release.is_none() {
                    out.cex(fam, format!("class=custom-precedence-order schema with precedence_order {order}: flow gives {:?}.{:?}.{:?} pre {:?} post {:?}; the statement gives 1.2.4 alpha post 2",
                        z.vars.major, z.vars.minor, z.vars.patch, z.vars.pre_release.as_ref().map(|p| (p.label, p.number)), z.vars.post)); },
                Err(e) => out.cex(fam, format!("class=custom-precedence-order schema with precedence_order {order}: flow fails ({e})")),
            }
        }
    }
    for (tag, maj, min, pat, tag_pre, tag_post) in tags {
        for branch in branches {
            for distance in [0u64, 3] {
                for dirty in [false, true] {
                    for mode in [None, Some("tag"), Some("commit")] {
                        for (flag_label, flag_num) in [(None, None), (Some("rc"), None), (None, Some(77u32)), (Some("beta"), Some(0u32))] {
                            for hash_len in [5u32, 1, 10] {
                                if hash_len != 5 && (distance == 0 || dirty || mode.is_some() || flag_label.is_some()) {
                                    continue;
                                }
                                out.cases += 1;
                                let mut argv: Vec<String> = vec!["flow".into(), "--source".into(), "none".into(), "--tag-version".into(), tag.into(), "--bumped-branch".into(), branch.into(),
                                    "--distance".into(), distance.to_string(), "--output-format".into(), "zerv".into(), "--hash-branch-len".into(), hash_len.to_string()];
                                argv.push(if dirty { "--dirty".into() } else { "--no-dirty".into() });
                                if let Some(m) = mode { argv.push("--post-mode".into()); argv.push(m.into()); }
                                if let Some(l) = flag_label { argv.push("--pre-release-label".into()); argv.push(l.into()); }
                                if let Some(n) = flag_num { argv.push("--pre-release-num".into()); argv.push(n.to_string()); }
                                let desc = format!("tag {tag} branch {branch:?} distance {distance} dirty {dirty} post-mode {mode:?} label {flag_label:?} num {flag_num:?} hash-len {hash_len}");
                                let z = match run(&argv) {
                                    Ok(z) => z,
                                    Err(e) => {
                                        let class = if hash_len == 10 { "class=hash-length-10-fails " } else { "" };
                                        out.cex(fam, format!("{class}{desc}: flow fails: {e}"));
                                        continue;
                                    }
                                };
                                let v = &z.vars;
                                let got = format!("{:?}.{:?}.{:?} pre {:?} post {:?} dev-set {}", v.major, v.minor, v.patch, v.pre_release.as_ref().map(|p| (p.label, p.number)), v.post, v.dev.is_some());
                                if distance == 0 && !dirty {
                                    // "nothing changed at a clean tagged commit"
                                    if v.major != Some(maj) || v.minor != Some(min) || v.patch != Some(pat) || v.pre_release.is_some() != tag_pre || v.post != tag_post || v.dev.is_some() {
                                        out.cex(fam, format!("{desc}: clean tagged commit changed the version: {got}"));
                                    }
                                    continue;
                                }
                                // the first matching default rule: develop -> beta 1 commit; release/* -> rc, number from the name, tag; * -> alpha, number from the name, commit
                                let (rule_label, rule_num, rule_mode): (&str, Option<u32>, &str) = if branch == "develop" { ("beta", Some(1), "commit") }
                                    else if branch.starts_with("release/") && branch.len() > "release/".len() { ("rc", first_digits(&branch["release/".len()..]), "tag") }
                                    else { ("alpha", first_digits(branch), "commit") };
                                let label = flag_label.unwrap_or(rule_label);
                                let mode_eff = mode.unwrap_or(rule_mode);
                                let want_patch = if tag_pre { pat } else { pat + 1 };
                                let want_post = tag_post.unwrap_or(0) + if mode_eff == "tag" { 1 } else { distance };
                                let want_dev = if mode_eff == "tag" { dirty || distance > 0 } else { dirty };
                                let mut wrong: Vec<String> = Vec::new();
                                if v.major != Some(maj) || v.minor != Some(min) || v.patch != Some(want_patch) { wrong.push(format!("core should be {maj}.{min}.{want_patch}")); }
                                match &v.pre_release {
                                    None => wrong.push("no pre-release".into()),
                                    Some(p) => {
                                        let l = match p.label { PreReleaseLabel::Alpha => "alpha", PreReleaseLabel::Beta => "beta", PreReleaseLabel::Rc => "rc" };
                                        if l != label { wrong.push(format!("label should be {label}")); }
                                        match flag_num.or(rule_num) {
                                            Some(n) => if p.number != Some(n as u64) { wrong.push(format!("pre-release number should be {n}")); },
                                            None => {
                                                // branch hash: at most hash_len digits, no leading zero (a number: not zero-padded by construction), the same on a second run
                                                let n = p.number.unwrap_or(0);
                                                if n.to_string().len() > hash_len as usize { wrong.push(format!("branch hash {n} has more than {hash_len} digits")); }
                                                if let Ok(z2) = run(&argv) {
                                                    if z2.vars.pre_release.as_ref().and_then(|q| q.number) != p.number { wrong.push("branch hash differs between two runs".into()); }
                                                }
                                            }
                                        }
                                    }
                                }
                                if v.post.unwrap_or(0) != want_post { wrong.push(format!("post should be {want_post}")); }
                                if v.dev.is_some() != want_dev { wrong.push(format!("dev timestamp should be {}", if want_dev { "set" } else { "absent" })); }
                                if !wrong.is_empty() {
                                    out.cex(fam, format!("{desc}: flow gives {got}; {}", wrong.join("; ")));
                                }
                            }
                        }
                    }
                }
            }
        }
    }
}

// ------------------------------------------------------------------ PEP 440 spellings (C11, text level): "all spellings of one version … compare equal"

fn pep440_spellings_family(out: &mut Out) {
    let fam = "pep440_spellings";
    // each group: spellings of one version (case, separators, alternative labels, leading zeros, v prefix, trailing zero release numbers,
    // explicit epoch 0, implicit numbers)
    let groups: Vec<Vec<&str>> = vec![
        vec!["1.0", "1", "1.0.0", "v1.0", "V1", "0!1.0", "00!1.0.0.0", "01.00", "000000000001.0", "00000000000!1"],
        vec!["1.2a1", "1.2.a1", "1.2-a1", "1.2_a1", "1.2alpha1", "1.2.ALPHA.1", "1.2-alpha_1", "1.2A01", "v1.2.0a1", "1.2a.1", "1.2a-1", "1.2a_1"],
        vec!["1.2b0", "1.2b", "1.2beta", "1.2.BETA", "1.2-b", "1.2.0.b0", "1.2beta00"],
        vec!["1.2.3", "1.00000000002.3", "1.2.00000000000003"],
        vec!["2.0.post4", "2.0-00000000004", "2.0.post00000000004"],
        vec!["2rc3", "2rc00000000003", "2c3", "2pre3", "2preview3", "2.RC.3", "2-c-3", "2_preview_3", "2.0rc03", "2PRE3"],
        vec!["1.0.post2", "1.0.post-2", "1.0-post2", "1.0post2", "1.0.rev2", "1.0-rev-2", "1.0r2", "1.0-r_2", "1.0-2", "1.0.POST.2", "1.0.0.post02", "1.0_post.2"],
        vec!["1.0.post0", "1.0.post", "1.0post", "1.0.rev", "1.0-r", "1.0.POST"],
        vec!["1.0.dev3", "1.0dev3", "1.0-dev3", "1.0_dev3", "1.0.dev-3", "1.0.dev.3", "1.0.DEV03", "1.0.0.dev3"],
        vec!["1.0.dev0", "1.0.dev", "1.0dev", "1.0-DEV"],
        vec!["3!1.0a2.post4.dev5+abc.1", "3!1.a2-4dev5+ABC-1", "v03!1.0.0alpha02.post.4.dev.5+abc_01", "3!1.0A2post4.DEV5+Abc.1"],
        vec!["1.0+abc.5", "1.0+ABC.5", "1.0+abc-5", "1.0+abc_05", "1+Abc.005"],
    ];
    for g in &groups {
        let mut parsed: Vec<(&str, PEP440)> = Vec::new();
        for sp in g {
            out.cases += 1;
            match PEP440::from_str(sp) {
                Ok(p) => parsed.push((sp, p)),
                Err(e) => out.cex(fam, format!("spelling {sp:?} (of {:?}) is rejected: {e}", g[0])),
            }
        }
        for (sa, a) in &parsed {
            for (sb, b) in &parsed {
                out.cases += 1;
                if a.cmp(b) != Ordering::Equal || a != b {
                    out.cex(fam, format!("spellings {sa:?} and {sb:?} of one version do not compare equal: cmp = {:?}, == is {}", a.cmp(b), a == b));
                }
            }
        }
    }
    // and different versions stay different: the first spelling of each group against the first of every other group
    for (i, g) in groups.iter().enumerate() {
        for (j, h) in groups.iter().enumerate() {
            if i == j { continue; }
            out.cases += 1;
            if let (Ok(a), Ok(b)) = (PEP440::from_str(g[0]), PEP440::from_str(h[0])) {
                if a.cmp(&b) == Ordering::Equal || a == b {
                    out.cex(fam, format!("different versions {:?} and {:?} compare equal", g[0], h[0]));
                }
            }
        }
    }
}

/// helper mode for the process-level families: `cex verdict <semver|pep440>` reads one version text per line on stdin and prints, per
/// line, `A <printed form>` when the library parser accepts it and `R` otherwise
fn verdict_mode(fmt: &str) {
    use std::io::BufRead;
    for line in std::io::stdin().lock().lines() {
        let s = line.unwrap_or_default();
        let r = if fmt == "semver" { SemVer::from_str(&s).map(|v| v.to_string()).ok() } else { PEP440::from_str(&s).map(|v| v.to_string()).ok() };
        match r { Some(t) => println!("A {t}"), None => println!("R") }
    }
}

fn main() {
    if std::env::args().nth(1).as_deref() == Some("verdict") {
        verdict_mode(&std::env::args().nth(2).unwrap_or_default());
        return;
    }
    let fam = std::env::args().nth(1).unwrap_or_default();
    let thorough = std::env::args().nth(2).as_deref() == Some("thorough");
    let seed: u64 = std::env::args().nth(3).and_then(|s| s.parse().ok()).unwrap_or(0);
    let mut out = Out { found: 0, cases: 0, per_class: Default::default(), thorough, rng: 0x9E3779B97F4A7C15 ^ seed.wrapping_mul(0xD1B54A32D192ED03).wrapping_add(1) };
    std::panic::set_hook(Box::new(|info| {
        if let Ok(mut g) = LAST_PANIC.lock() {
            *g = info.to_string();
        }
    }));
    let fam2 = fam.clone();
    let r = std::panic::catch_unwind(std::panic::AssertUnwindSafe(|| run_family(&fam2, &mut out)));
    if r.is_err() {
        // the real code panicked on one of the inputs of this family: that is a concrete counterexample to "never panics"
        let msg = LAST_PANIC.lock().map(|g| g.clone()).unwrap_or_default();
        println!("CEX {fam} the real code panicked while the family was being run (after {} cases): {}", out.cases, msg.replace('\n', " "));
        println!("CEX-COUNT {fam} 1 of {} cases", out.cases);
        std::process::exit(1);
    }
    if out.found > 0 {
        println!("CEX-COUNT {fam} {} of {} cases", out.found, out.cases);
        std::process::exit(1);
    }
    println!("NO-CEX {fam} cases={}", out.cases);
}

fn run_family(fam: &str, out: &mut Out) {
    let mut out = out;
    match fam {
        "semver_order" => semver_family(&mut out),
        "pep440_order" => pep440_family(&mut out),
        "sanitize" | "sanitize_uint_claim" => sanitize_family(&mut out),
        "branch_rules" => { branch_family(&mut out); branch_rules_sets(&mut out); }
        "bump_levels" => bump_family(&mut out),
        "presets_tier" => tier_family(&mut out),
        "timestamp" => timestamp_family(&mut out),
        "schema_validate" => schema_family(&mut out),
        "semver_parts" => parts_family(&mut out, true),
        "pep440_display" => parts_family(&mut out, false),
        "resolve_barrier" => barrier_family(&mut out),
        "template_functions" => template_family(&mut out),
        "semver_from_zerv" => placement_family(&mut out, true),
        "bump_sequence" => bump_sequence_family(&mut out),
        "pep440_spellings" => pep440_spellings_family(&mut out),
        "flow_rules" => flow_rules_family(&mut out),
        "ron_roundtrip" => ron_roundtrip_family(&mut out),
        "convert_roundtrip" => convert_roundtrip_family(&mut out),
        "semver_roundtrip" => semver_roundtrip_family(&mut out),
        "pep440_roundtrip" => pep440_roundtrip_family(&mut out),
        "tag_max_semver" => tag_max_family(&mut out, true),
        "tag_max_pep440" => tag_max_family(&mut out, false),
        "pep440_from_zerv" => placement_family(&mut out, false),
        _ => {
            eprintln!("unknown family {fam}");
            std::process::exit(64);
        }
    }
}
