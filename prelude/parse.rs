// ---- trusted prelude: str::parse and str::strip_prefix -----------------------------------------------
mod trusted_parse {
use vstd::prelude::*;
use super::trusted_strings::*;
verus! {

// TRUSTED[parse-int-error-type]: core::num::ParseIntError declared as an opaque type (only Ok/Err is observed).
#[verifier::external_type_specification]
#[verifier::external_body]
pub struct ExParseIntError(core::num::ParseIntError);

// TRUSTED[fromstr-trait-declared]: declares std::str::FromStr (its Err type and from_str, no specification) so that `parse` can be given
// a specification and so that a repository `impl FromStr` can be verified in place.
#[verifier::external_trait_specification]
pub trait ExFromStr: Sized {
    type ExternalTraitSpecificationFor: std::str::FromStr;
    type Err;
    fn from_str(s: &str) -> Result<Self, Self::Err>;
}

/// the value `s.parse::<F>()` yields when it succeeds (uninterpreted: which texts parse, and to what, is std's)
pub uninterp spec fn parse_spec<F>(s: Seq<char>) -> Option<F>;

// TRUSTED[str-parse]: names the result of str::parse::<F>() as a function of the text (std's FromStr impls are deterministic), and
// `s.parse::<F>()` is `F::from_str(s)` (std doc: "parse … uses FromStr::from_str"), so a contract proved on a repository `from_str` carries over.
pub assume_specification<F: std::str::FromStr> [str::parse::<F>] (s: &str) -> (r: Result<F, <F as std::str::FromStr>::Err>)
    ensures r is Ok <==> parse_spec::<F>(s@) is Some, r is Ok ==> Some(r->Ok_0) == parse_spec::<F>(s@),
        call_ensures(F::from_str, (s,), r);

// TRUSTED[str-strip-prefix]: strip_prefix(pat) removes one leading occurrence of a string/char pattern, None if absent (std doc).
#[verifier::allow(undeclared_external_trait)]
pub assume_specification<'b, P: std::str::pattern::Pattern> [str::strip_prefix::<P>] (s: &'b str, p: P) -> (r: Option<&'b str>)
    ensures match r {
        Some(t) => is_prefix(pattern_text::<P>(p), s@) && t@ == s@.skip(pattern_text::<P>(p).len() as int),
        None => !is_prefix(pattern_text::<P>(p), s@),
    };

}
}
