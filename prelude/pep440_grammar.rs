// shared by units pep440_display and pep440_from_zerv (included inside verus!{} after prelude/strings.rs and prelude/join.rs): the normalised form of a
// PEP 440 version, `[N!]N(.N)*[{a|b|rc}N][.postN][.devN][+local]` (PEP 440, "Normalization" / Appendix B) on texts. Specification only, nothing trusted.

pub open spec fn pg_only_digits(t: Seq<char>) -> bool { forall|i: int| 0 <= i < t.len() ==> is_ascii_digit_c(#[trigger] t[i]) }
/// a non-negative integer without leading zeros
pub open spec fn pg_num(t: Seq<char>) -> bool { t.len() > 0 && pg_only_digits(t) && (t.len() == 1 || t[0] != '0') }
/// a normalised local segment: lower-case ASCII letters and digits
pub open spec fn pg_local_seg(t: Seq<char>) -> bool {
    t.len() > 0 && forall|i: int| 0 <= i < t.len() ==> is_ascii_alnum_c(#[trigger] t[i]) && !('A' <= t[i] && t[i] <= 'Z')
}
pub open spec fn pg_label(t: Seq<char>) -> bool { t == seq!['a'] || t == seq!['b'] || t == seq!['r', 'c'] }
pub open spec fn pg_opt(prefix: Seq<char>, t: Option<Seq<char>>) -> Seq<char> { match t { Some(x) => prefix + x, None => Seq::<char>::empty() } }
/// the text of a version from its pieces
pub open spec fn pep440_text(epoch: Option<Seq<char>>, release: Seq<Seq<char>>, pre: Option<(Seq<char>, Seq<char>)>, post: Option<Seq<char>>,
                             dev: Option<Seq<char>>, local: Seq<Seq<char>>) -> Seq<char> {
    (match epoch { Some(e) => e + seq!['!'], None => Seq::<char>::empty() })
        + concat_with(release, seq!['.'])
        + (match pre { Some(p) => p.0 + p.1, None => Seq::<char>::empty() })
        + pg_opt(seq!['.', 'p', 'o', 's', 't'], post)
        + pg_opt(seq!['.', 'd', 'e', 'v'], dev)
        + (if local.len() > 0 { seq!['+'] + concat_with(local, seq!['.']) } else { Seq::<char>::empty() })
}
/// a normalised PEP 440 version
pub open spec fn valid_pep440(s: Seq<char>) -> bool {
    exists|epoch: Option<Seq<char>>, release: Seq<Seq<char>>, pre: Option<(Seq<char>, Seq<char>)>, post: Option<Seq<char>>, dev: Option<Seq<char>>, local: Seq<Seq<char>>|
        #[trigger] pep440_text(epoch, release, pre, post, dev, local) == s
        && (epoch is Some ==> pg_num(epoch->0)) && release.len() >= 1 && (forall|i: int| 0 <= i < release.len() ==> pg_num(#[trigger] release[i]))
        && (pre is Some ==> pg_label((pre->0).0) && pg_num((pre->0).1)) && (post is Some ==> pg_num(post->0)) && (dev is Some ==> pg_num(dev->0))
        && (forall|i: int| 0 <= i < local.len() ==> pg_local_seg(#[trigger] local[i]))
}
