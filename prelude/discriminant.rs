// ---- trusted prelude: std::mem::discriminant -------------------------------------------------------------
mod trusted_discriminant {
use vstd::prelude::*;
verus! {

// TRUSTED[discriminant-type]: std::mem::Discriminant<T> declared as an opaque type; disc_of names the variant it stands for.
#[verifier::external_type_specification]
#[verifier::external_body]
#[verifier::reject_recursive_types(T)]
pub struct ExDiscriminant<T>(std::mem::Discriminant<T>);

pub uninterp spec fn disc_of<T>(d: std::mem::Discriminant<T>) -> int;
/// the number of the variant a value is of (uninterpreted; a unit states it for its own enum, see TRUSTED[discriminant-of-…] there)
pub uninterp spec fn variant_of<T>(v: T) -> int;

// TRUSTED[mem-discriminant]: std::mem::discriminant(v) identifies the variant of v (std doc: "Returns a value uniquely identifying the enum variant in v").
pub assume_specification<T> [std::mem::discriminant::<T>] (v: &T) -> (d: std::mem::Discriminant<T>)
    ensures disc_of(d) == variant_of(*v);

// TRUSTED[discriminant-eq]: two discriminants are equal exactly when they stand for the same variant (std doc: "if two discriminants are equal
// the values are of the same variant and vice versa").
pub assume_specification<T> [<std::mem::Discriminant<T> as PartialEq>::eq] (a: &std::mem::Discriminant<T>, b: &std::mem::Discriminant<T>) -> (r: bool)
    ensures r == (disc_of(*a) == disc_of(*b));

}
}
