// ---- trusted prelude: small std functions vstd has no specification for -----------------------
mod trusted_std_misc {
use vstd::prelude::*;
use vstd::std_specs::cmp::*;
use std::cmp::Ordering;
verus! {

// TRUSTED[option-copied]: Option<&T>::copied maps Some(&x) to Some(x) (std doc).
pub assume_specification<'a, T: Copy> [std::option::Option::<&'a T>::copied] (o: Option<&'a T>) -> (r: Option<T>)
    ensures r == (match o { Some(x) => Some(*x), None => None });

// TRUSTED[option-or]: Option::or returns self if it is Some, otherwise the argument (std doc).
pub assume_specification<T> [std::option::Option::<T>::or] (a: Option<T>, b: Option<T>) -> (r: Option<T>)
    ensures r == (if a is Some { a } else { b });

/// whether a slice contains a value equal (under the element type's PartialEq) to x; fixed per element type below
pub uninterp spec fn slice_contains_spec<T>(s: Seq<T>, x: T) -> bool;

// TRUSTED[slice-contains]: names the result of `[T]::contains(x)` (true iff some element == x, std doc).
pub assume_specification<T: PartialEq> [<[T]>::contains] (s: &[T], x: &T) -> (r: bool)
    ensures r == slice_contains_spec::<T>(s@, *x);

// TRUSTED[slice-contains-str]: for `&str` elements, equality is equality of the texts.
pub broadcast axiom fn axiom_slice_contains_str<'a>(s: Seq<&'a str>, x: &'a str)
    ensures #[trigger] slice_contains_spec::<&'a str>(s, x) == exists|i: int| 0 <= i < s.len() && (#[trigger] s[i])@ == x@;

// TRUSTED[slice-contains-structural]: for element types whose PartialEq is derived (structural), `contains` is membership.
// Instantiated only by units that extract such a type and keep its derive(PartialEq); the axiom itself is generic.
pub broadcast axiom fn axiom_slice_contains_var<T>(s: Seq<T>, x: T)
    requires structural_eq::<T>(),
    ensures #[trigger] slice_contains_spec::<T>(s, x) == s.contains(x);
/// marker: T's PartialEq is the derived, structural one (asserted per type by the unit that extracts it)
pub uninterp spec fn structural_eq<T>() -> bool;

// TRUSTED[vec-len-isize-max]: a Vec whose element type is not zero-sized holds at most isize::MAX elements (Rust allocation
// limit: at most isize::MAX bytes). Only to be invoked for non-zero-sized element types (here: Vec<Component>).
pub axiom fn axiom_vec_len_fits_isize<T>(v: &Vec<T>)
    ensures v@.len() <= isize::MAX;

/// the str value with a given text
pub uninterp spec fn str_of(v: Seq<char>) -> &'static str;
// TRUSTED[str-view-injective]: a str value is determined by its text (spec-level strs are immutable texts); needed because
// `match s { CONST => … }` on strings is encoded as equality of str values. Stated through a canonical representative so
// that the axiom has a single-term trigger.
pub broadcast axiom fn axiom_str_view_injective(a: &str)
    ensures str_of(#[trigger] a@) == a;

/// the borrow `Deref::deref` yields (uninterpreted in general; fixed for String below)
pub uninterp spec fn deref_target<T: std::ops::Deref>(t: &T) -> &<T as std::ops::Deref>::Target;

// TRUSTED[option-as-deref]: Option<T>::as_deref maps Some(t) to Some(t.deref()) and None to None (std doc).
pub assume_specification<T: std::ops::Deref> [std::option::Option::<T>::as_deref] (o: &Option<T>) -> (r: Option<&<T as std::ops::Deref>::Target>)
    ensures match *o { Some(t) => r == Some(deref_target(&t)), None => r is None };

// TRUSTED[string-deref-view]: dereferencing a String yields the str with the same text.
pub broadcast axiom fn axiom_string_deref_view(s: &String)
    ensures #[trigger] deref_target(s)@ == s@;

// TRUSTED[vec-deref-view]: dereferencing a Vec<T> yields the slice of its elements (std: `impl Deref for Vec<T>` is `as_slice`).
pub broadcast axiom fn axiom_vec_deref_view<T>(v: &Vec<T>)
    ensures #[trigger] deref_target(v)@ == v@;

/// Lexicographic comparison of two sequences by the element order (shorter prefix lower).
pub open spec fn seq_lex<T: Ord>(a: Seq<T>, b: Seq<T>) -> Ordering
    decreases a.len()
{
    if a.len() == 0 {
        if b.len() == 0 { Ordering::Equal } else { Ordering::Less }
    } else if b.len() == 0 {
        Ordering::Greater
    } else if a[0].cmp_spec(&b[0]) != Ordering::Equal {
        a[0].cmp_spec(&b[0])
    } else {
        seq_lex(a.subrange(1, a.len() as int), b.subrange(1, b.len() as int))
    }
}

// TRUSTED[vec-ord-obeys]: `impl Ord for Vec<T>` is lawful when T's is (std doc: "Implements ordering of vectors, lexicographically").
pub broadcast axiom fn axiom_vec_obeys_cmp<T: Ord>()
    requires T::obeys_cmp_spec(),
    ensures #[trigger] <Vec<T> as OrdSpec>::obeys_cmp_spec();

// TRUSTED[vec-ord-lex]: Vec<T>::cmp is the lexicographic comparison of the element sequences (std doc).
pub broadcast axiom fn axiom_vec_cmp_is_lex<T: Ord>(a: Vec<T>, b: Vec<T>)
    requires T::obeys_cmp_spec(),
    ensures #[trigger] a.cmp_spec(&b) == seq_lex(a@, b@);

// TRUSTED[option-flatten]: Option<Option<T>>::flatten (std doc: "Converts from Option<Option<T>> to Option<T>").
pub assume_specification<T> [Option::<Option<T>>::flatten] (o: Option<Option<T>>) -> (r: Option<T>)
    ensures r == (match o { Some(x) => x, None => None::<T> });


// TRUSTED[result-unwrap-or-else]: Result::unwrap_or_else returns the Ok value, or what the closure makes of the error (std doc).
pub assume_specification<T, E, F: FnOnce(E) -> T> [Result::<T, E>::unwrap_or_else] (r: Result<T, E>, f: F) -> (t: T)
    requires r is Err ==> f.requires((r->Err_0,)),
    ensures r is Ok ==> t == r->Ok_0, r is Err ==> f.ensures((r->Err_0,), t);
// TRUSTED[result-unwrap-or]: Result::unwrap_or returns the Ok value, or the given default for an Err (std doc).
#[verifier::allow(undeclared_external_trait)]
pub assume_specification<T, E> [std::result::Result::<T, E>::unwrap_or] (r: std::result::Result<T, E>, d: T) -> (t: T)
    where E: std::marker::Destruct, T: std::marker::Destruct,
    ensures t == (match r { Ok(v) => v, Err(_) => d });
// TRUSTED[result-unwrap-or-default]: Result::unwrap_or_default returns the Ok value, or T::default() for an Err (std doc).
#[verifier::allow(undeclared_external_trait)]
pub assume_specification<T: Default, E> [std::result::Result::<T, E>::unwrap_or_default] (r: std::result::Result<T, E>) -> (t: T)
    where E: std::marker::Destruct, T: std::marker::Destruct,
    ensures r is Ok ==> t == r->Ok_0, r is Err ==> call_ensures(T::default, (), t);
// TRUSTED[option-or-else]: Option::or_else keeps a Some, otherwise returns what the closure returns (std doc).
#[verifier::allow(undeclared_external_trait)]
pub assume_specification<T, F> [std::option::Option::<T>::or_else] (o: std::option::Option<T>, f: F) -> (r: std::option::Option<T>)
    where F: std::ops::FnOnce() -> std::option::Option<T> + std::marker::Destruct, T: std::marker::Destruct,
    requires o is None ==> f.requires(()),
    ensures o is Some ==> r == o, o is None ==> f.ensures((), r);
// TRUSTED[bool-then-some]: bool::then_some(t) is Some(t) if the bool is true, None otherwise (std doc).
pub assume_specification<T> [bool::then_some::<T>] (b: bool, t: T) -> (r: Option<T>)
    ensures r == (if b { Some(t) } else { None::<T> });
// TRUSTED[skip-slice]: the items of `s.iter().skip(n)` are the items of the sub-slice after the first n (all of them skipped if there are fewer);
// rule E22 replaces `X.iter().skip(N)` in a `for` by this function followed by `.iter()`.
#[verifier::external_body]
pub fn vx_skip_slice<T>(s: &[T], n: usize) -> (r: &[T])
    ensures r@ == s@.skip(if n <= s@.len() { n as int } else { s@.len() as int })
{ &s[n.min(s.len())..] }

// TRUSTED[isize-unsigned-abs]: isize::unsigned_abs is the absolute value as usize, without overflow (std doc).
pub assume_specification [isize::unsigned_abs] (x: isize) -> (r: usize)
    ensures r as int == (if x >= 0 { x as int } else { -(x as int) });
// TRUSTED[isize-rem-euclid]: isize::rem_euclid(rhs) for rhs > 0 is the least non-negative remainder (std doc); it panics for rhs == 0 and
// overflows for MIN.rem_euclid(-1). Verus' `%` on int is the Euclidean remainder.
pub assume_specification [isize::rem_euclid] (x: isize, rhs: isize) -> (r: isize)
    requires rhs != 0, !(x == isize::MIN && rhs == -1),
    ensures rhs > 0 ==> r as int == (x as int) % (rhs as int), 0 <= r, rhs > 0 ==> r < rhs;

}
}
