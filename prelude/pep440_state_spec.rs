// ---- shared specification: the abstract value of a PEP 440 version and its normalisation (units pep440_from_zerv and pep440_parse); nothing trusted here
/// a local segment as the statement sees it: a number or a text
pub enum SegView { UInt(u32), Str(Seq<char>) }
pub open spec fn seg_view(l: LocalSegment) -> SegView { match l { LocalSegment::UInt(n) => SegView::UInt(n), LocalSegment::Str(s) => SegView::Str(s@) } }
pub open spec fn seg_views(l: Seq<LocalSegment>) -> Seq<SegView> { l.map_values(|x: LocalSegment| seg_view(x)) }
/// normalisation of local segments: lower-cased; a text that reads as a u32 becomes that integer (PEP440::normalize_local_segment and the loop over the
/// segments, normalize_local_segments, are proved against it)
pub open spec fn norm_seg(s: SegView) -> SegView {
    match s {
        SegView::UInt(_) => s,
        SegView::Str(t) => match parse_spec::<u32>(str_lower(t)) { Some(n) => SegView::UInt(n), None => SegView::Str(str_lower(t)) },
    }
}
pub open spec fn norm_local(l: Seq<SegView>) -> Seq<SegView> { l.map_values(|s: SegView| norm_seg(s)) }
/// abstract value of a PEP 440 version under construction
pub ghost struct PepSt {
    pub epoch: u32, pub release: Seq<u32>,
    pub pre_label: Option<PreReleaseLabel>, pub pre_number: Option<u32>,
    pub post_label: Option<PostLabel>, pub post_number: Option<u32>,
    pub dev_label: Option<DevLabel>, pub dev_number: Option<u32>,
    pub local: Seq<SegView>,
}
pub open spec fn local_view(p: PEP440) -> Seq<SegView> { match p.local { Some(l) => seg_views(l@), None => Seq::empty() } }
pub open spec fn pst(p: PEP440) -> PepSt {
    PepSt { epoch: p.epoch, release: p.release@, pre_label: p.pre_label, pre_number: p.pre_number,
        post_label: p.post_label, post_number: p.post_number, dev_label: p.dev_label, dev_number: p.dev_number, local: local_view(p) }
}

/// implicit numbers become 0; local segments normalised
pub open spec fn implicit_numbers(st: PepSt) -> PepSt {
    PepSt {
        pre_number: if st.pre_label is Some && st.pre_number is None { Some(0u32) } else { st.pre_number },
        post_number: if st.post_label is Some && st.post_number is None { Some(0u32) } else { st.post_number },
        dev_number: if st.dev_label is Some && st.dev_number is None { Some(0u32) } else { st.dev_number },
        ..st
    }
}
pub open spec fn normalized(st: PepSt) -> PepSt { PepSt { local: norm_local(st.local), ..implicit_numbers(st) } }

pub open spec fn empty_st() -> PepSt {
    PepSt { epoch: 0, release: Seq::empty(), pre_label: None, pre_number: None, post_label: None, post_number: None,
        dev_label: None, dev_number: None, local: Seq::empty() }
}
