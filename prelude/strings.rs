// ---- trusted prelude: std string functions vstd has no specification for ---------------------------
// vstd views String/str as Seq<char> and has a proved UTF-8 library (vstd::utf8: encode_utf8, is_char_boundary,
// str::len == spec_bytes().len(), slicing on byte ranges).  Only the std functions below are trusted.
mod trusted_strings {
use vstd::prelude::*;
use vstd::utf8::*;
use vstd::string::*;
use vstd::std_specs::cmp::*;
verus! {

/// UTF-8 byte length of a text
pub open spec fn blen(s: Seq<char>) -> nat { encode_utf8(s).len() }

pub open spec fn is_prefix(p: Seq<char>, s: Seq<char>) -> bool {
    p.len() <= s.len() && s.take(p.len() as int) =~= p
}

pub open spec fn is_suffix(p: Seq<char>, s: Seq<char>) -> bool {
    p.len() <= s.len() && s.skip(s.len() - p.len()) =~= p
}

// TRUSTED[string-len-bytes]: String::len is the length in bytes of its UTF-8 text (std doc).
pub assume_specification [std::string::String::len] (s: &String) -> (r: usize)
    ensures r == blen(s@);

// TRUSTED[str-len-fits-usize]: a str occupies at most isize::MAX bytes (Rust allocation limit), so its length fits usize.
pub broadcast axiom fn axiom_str_len_fits(s: &str)
    ensures #[trigger] s.spec_bytes().len() <= usize::MAX;

// TRUSTED[string-eq-str-obeys]: `String == &str` / `String == str` compare the texts (std: impl PartialEq<str> for String).
pub broadcast axiom fn axiom_string_eq_str_obeys()
    ensures #[trigger] <String as PartialEqSpec<str>>::obeys_eq_spec();
// TRUSTED[string-eq-str]: see string-eq-str-obeys.
pub broadcast axiom fn axiom_string_eq_str(a: String, b: &str)
    ensures #[trigger] <String as PartialEqSpec<str>>::eq_spec(&a, b) == (a@ == b@);
// TRUSTED[string-eq-refstr-obeys]: `String == &str` compares the texts (std: impl PartialEq<&str> for String).
pub broadcast axiom fn axiom_string_eq_refstr_obeys<'a>()
    ensures #[trigger] <String as PartialEqSpec<&'a str>>::obeys_eq_spec();
// TRUSTED[string-eq-refstr]: see string-eq-refstr-obeys.
pub broadcast axiom fn axiom_string_eq_refstr<'a>(a: String, b: &'a str)
    ensures #[trigger] <String as PartialEqSpec<&'a str>>::eq_spec(&a, &b) == (a@ == b@);

/// the text a pattern argument stands for, when it is a string pattern (`&str`, `&String`) or a `char`
pub uninterp spec fn pattern_text<P>(p: P) -> Seq<char>;

// TRUSTED[pattern-text-str]: a `&str` pattern matches exactly its own text (std::str::pattern).
pub broadcast axiom fn axiom_pattern_text_str(p: &str)
    ensures #[trigger] pattern_text::<&str>(p) == p@;
// TRUSTED[pattern-text-string]: a `&String` pattern matches exactly its own text (std::str::pattern).
pub broadcast axiom fn axiom_pattern_text_string(p: &String)
    ensures #[trigger] pattern_text::<&String>(p) == p@;
// TRUSTED[pattern-text-char]: a `char` pattern matches exactly that character (std::str::pattern).
pub broadcast axiom fn axiom_pattern_text_char(p: char)
    ensures #[trigger] pattern_text::<char>(p) == seq![p];

// TRUSTED[str-starts-with]: str::starts_with(pat) for a string/char pattern is the prefix test on the text (std doc).
#[verifier::allow(undeclared_external_trait)]
pub assume_specification<P: std::str::pattern::Pattern> [str::starts_with::<P>] (s: &str, p: P) -> (r: bool)
    ensures r == is_prefix(pattern_text::<P>(p), s@);

// TRUSTED[str-ends-with]: str::ends_with(pat) for a string/char pattern is the suffix test on the text (std doc).
#[verifier::allow(undeclared_external_trait)]
pub assume_specification<P: std::str::pattern::Pattern> [str::ends_with::<P>] (s: &str, p: P) -> (r: bool)
    where for<'a> <P as std::str::pattern::Pattern>::Searcher<'a>: std::str::pattern::ReverseSearcher<'a>
    ensures r == is_suffix(pattern_text::<P>(p), s@);

// ---- characters
pub open spec fn is_ascii_digit_c(c: char) -> bool { '0' <= c && c <= '9' }
pub open spec fn is_ascii_alnum_c(c: char) -> bool {
    ('0' <= c && c <= '9') || ('a' <= c && c <= 'z') || ('A' <= c && c <= 'Z')
}
pub open spec fn ascii_lower_c(c: char) -> char {
    if 'A' <= c && c <= 'Z' { ((c as u8) + 32u8) as char } else { c }
}

// TRUSTED[char-is-ascii-alphanumeric]: exact definition from the std doc (0-9, a-z, A-Z).
pub assume_specification [char::is_ascii_alphanumeric] (c: &char) -> (r: bool)
    ensures r == is_ascii_alnum_c(*c);
// TRUSTED[char-is-ascii-digit]: exact definition from the std doc (0-9).
pub assume_specification [char::is_ascii_digit] (c: &char) -> (r: bool)
    ensures r == is_ascii_digit_c(*c);

/// Unicode `Alphabetic || Numeric` (char::is_alphanumeric): uninterpreted beyond ASCII
pub uninterp spec fn unicode_alnum(c: char) -> bool;
// TRUSTED[char-is-alphanumeric]: names char::is_alphanumeric; only its ASCII restriction is assumed (std doc).
pub assume_specification [char::is_alphanumeric] (c: char) -> (r: bool)
    ensures r == unicode_alnum(c), (c as u32) < 128 ==> r == is_ascii_alnum_c(c);

// TRUSTED[str-to-ascii-lowercase]: maps A-Z to a-z and leaves every other character unchanged (std doc).
pub assume_specification [str::to_ascii_lowercase] (s: &str) -> (r: String)
    ensures r@ == s@.map_values(|c: char| ascii_lower_c(c));

// TRUSTED[string-truncate]: String::truncate(n) keeps the first n bytes; no effect if n >= len; panics if n is inside a
// code point (std doc) — stated as a precondition.
pub assume_specification [std::string::String::truncate] (s: &mut String, n: usize)
    requires n >= blen(old(s)@) || is_char_boundary(encode_utf8(old(s)@), n as int),
    ensures
        n >= blen(old(s)@) ==> final(s)@ == old(s)@,
        n < blen(old(s)@) ==> encode_utf8(final(s)@) == encode_utf8(old(s)@).subrange(0, n as int);

/// Unicode White_Space (char::is_whitespace): uninterpreted beyond the fact that ASCII letters and digits are not
pub uninterp spec fn is_ws(c: char) -> bool;
// TRUSTED[ws-not-alnum]: no ASCII letter or digit is whitespace.
pub broadcast axiom fn axiom_ws_not_alnum(c: char)
    requires is_ascii_alnum_c(c),
    ensures !#[trigger] is_ws(c);
pub open spec fn trim_ws_start(s: Seq<char>) -> Seq<char> decreases s.len() {
    if s.len() > 0 && is_ws(s[0]) { trim_ws_start(s.skip(1)) } else { s }
}
pub open spec fn trim_ws_end(s: Seq<char>) -> Seq<char> decreases s.len() {
    if s.len() > 0 && is_ws(s[s.len() - 1]) { trim_ws_end(s.drop_last()) } else { s }
}
// TRUSTED[str-trim]: str::trim removes leading and trailing Unicode whitespace (std doc).
pub assume_specification [str::trim] (s: &str) -> (r: &str)
    ensures r@ == trim_ws_end(trim_ws_start(s@));

/// repeatedly remove the (non-empty) text `p` from the front / the back
pub open spec fn strip_start(s: Seq<char>, p: Seq<char>) -> Seq<char> decreases s.len() {
    if p.len() > 0 && is_prefix(p, s) { strip_start(s.skip(p.len() as int), p) } else { s }
}
pub open spec fn strip_end(s: Seq<char>, p: Seq<char>) -> Seq<char> decreases s.len() {
    if p.len() > 0 && is_suffix(p, s) { strip_end(s.take(s.len() - p.len()), p) } else { s }
}
// TRUSTED[str-trim-start-matches]: for a non-empty string/char pattern, trim_start_matches removes all leading repetitions (std doc).
#[verifier::allow(undeclared_external_trait)]
pub assume_specification<'b, P: std::str::pattern::Pattern> [str::trim_start_matches::<P>] (s: &'b str, p: P) -> (r: &'b str)
    requires pattern_text::<P>(p).len() > 0,
    ensures r@ == strip_start(s@, pattern_text::<P>(p));
// TRUSTED[str-trim-end-matches]: for a non-empty string/char pattern, trim_end_matches removes all trailing repetitions (std doc).
#[verifier::allow(undeclared_external_trait)]
pub assume_specification<'b, P: std::str::pattern::Pattern> [str::trim_end_matches::<P>] (s: &'b str, p: P) -> (r: &'b str)
    where for<'a> <P as std::str::pattern::Pattern>::Searcher<'a>: std::str::pattern::ReverseSearcher<'a>
    requires pattern_text::<P>(p).len() > 0,
    ensures r@ == strip_end(s@, pattern_text::<P>(p));

/// `needle` occurs in `s` as a contiguous block
pub open spec fn has_substring(s: Seq<char>, needle: Seq<char>) -> bool {
    exists|i: int| 0 <= i <= s.len() - needle.len() && #[trigger] s.subrange(i, i + needle.len()) =~= needle
}
// TRUSTED[str-contains]: str::contains(pat) for a string/char pattern is the substring test (std doc).
#[verifier::allow(undeclared_external_trait)]
pub assume_specification<P: std::str::pattern::Pattern> [str::contains::<P>] (s: &str, p: P) -> (r: bool)
    ensures r == has_substring(s@, pattern_text::<P>(p));
// TRUSTED[string-with-capacity]: String::with_capacity returns an empty string (std doc).
pub assume_specification [std::string::String::with_capacity] (n: usize) -> (r: String)
    ensures r@ == Seq::<char>::empty();
// TRUSTED[char-is-ascii-uppercase]: exact definition from the std doc.
pub assume_specification [char::is_ascii_uppercase] (c: &char) -> (r: bool)
    ensures r == ('A' <= *c && *c <= 'Z');
// TRUSTED[char-is-ascii-lowercase]: exact definition from the std doc.
pub assume_specification [char::is_ascii_lowercase] (c: &char) -> (r: bool)
    ensures r == ('a' <= *c && *c <= 'z');
// TRUSTED[char-is-ascii-alphabetic]: exact definition from the std doc.
pub assume_specification [char::is_ascii_alphabetic] (c: &char) -> (r: bool)
    ensures r == (('a' <= *c && *c <= 'z') || ('A' <= *c && *c <= 'Z'));
// TRUSTED[char-to-ascii-lowercase]: exact definition from the std doc.
pub assume_specification [char::to_ascii_lowercase] (c: &char) -> (r: char)
    ensures r == ascii_lower_c(*c);
// TRUSTED[char-is-ascii]: exact definition from the std doc.
pub assume_specification [char::is_ascii] (c: &char) -> (r: bool)
    ensures r == ((*c as u32) < 128);
/// Unicode Alphabetic / Numeric (char::is_alphabetic / is_numeric): uninterpreted beyond ASCII
pub uninterp spec fn unicode_alpha(c: char) -> bool;
pub uninterp spec fn unicode_numeric(c: char) -> bool;
// TRUSTED[char-is-alphabetic]: names char::is_alphabetic; only its ASCII restriction is assumed.
pub assume_specification [char::is_alphabetic] (c: char) -> (r: bool)
    ensures r == unicode_alpha(c), (c as u32) < 128 ==> r == (('a' <= c && c <= 'z') || ('A' <= c && c <= 'Z'));
// TRUSTED[char-is-numeric]: names char::is_numeric; only its ASCII restriction is assumed.
pub assume_specification [char::is_numeric] (c: char) -> (r: bool)
    ensures r == unicode_numeric(c), (c as u32) < 128 ==> r == is_ascii_digit_c(c);

/// bytes of the result of indexing a String by `i` (only fixed for the index types axiomatised below)
pub uninterp spec fn string_index_bytes<I>(s: Seq<char>, i: I) -> Seq<u8>;
/// UTF-8 bytes of an index result (`str` for range indices)
pub uninterp spec fn out_bytes<T: ?Sized>(o: &T) -> Seq<u8>;

// TRUSTED[string-index]: `impl Index<I> for String` returns the same slice as indexing the str (std: delegates to str indexing).
pub assume_specification<I: std::slice::SliceIndex<str>> [<String as std::ops::Index<I>>::index] (s: &String, i: I) -> (out: &<I as std::slice::SliceIndex<str>>::Output)
    ensures out_bytes(out) == string_index_bytes::<I>(s@, i);

// TRUSTED[string-index-rangeto-req]: `s[..n]` on a String is defined iff n <= len and n is on a char boundary (std doc; panics otherwise).
pub broadcast axiom fn axiom_string_index_req_rangeto(s: String, r: std::ops::RangeTo<usize>)
    ensures #[trigger] <String as vstd::std_specs::core::IndexSpec<std::ops::RangeTo<usize>>>::index_req(&s, &r)
        == (r.end <= blen(s@) && is_char_boundary(encode_utf8(s@), r.end as int));
// TRUSTED[out-bytes-str]: the bytes of a `str` result are its UTF-8 bytes.
pub broadcast axiom fn axiom_out_bytes_str(o: &str)
    ensures #[trigger] out_bytes::<str>(o) == o.spec_bytes();
// TRUSTED[string-index-rangeto]: `s[..n]` is the first n bytes.
pub broadcast axiom fn axiom_string_index_rangeto(s: Seq<char>, r: std::ops::RangeTo<usize>)
    ensures #[trigger] string_index_bytes::<std::ops::RangeTo<usize>>(s, r) == encode_utf8(s).subrange(0, r.end as int);

/// bytes of the result of indexing a str by `i` (only fixed for the index types axiomatised below)
pub uninterp spec fn str_index_bytes<I>(s: Seq<u8>, i: I) -> Seq<u8>;

// TRUSTED[str-index]: names the result of `impl Index<I> for str` (vstd gives the precondition — bounds and char boundaries — but no postcondition).
pub assume_specification<I: std::slice::SliceIndex<str>> [<str as std::ops::Index<I>>::index] (s: &str, i: I) -> (out: &<I as std::slice::SliceIndex<str>>::Output)
    ensures out_bytes(out) == str_index_bytes::<I>(s.spec_bytes(), i);
// TRUSTED[str-index-rangefrom]: `s[n..]` is the bytes from n to the end (std doc).
pub broadcast axiom fn axiom_str_index_rangefrom(b: Seq<u8>, r: std::ops::RangeFrom<usize>)
    ensures #[trigger] str_index_bytes::<std::ops::RangeFrom<usize>>(b, r) == b.subrange(r.start as int, b.len() as int);
// TRUSTED[str-index-rangeto]: `s[..n]` is the first n bytes (std doc).
pub broadcast axiom fn axiom_str_index_rangeto(b: Seq<u8>, r: std::ops::RangeTo<usize>)
    ensures #[trigger] str_index_bytes::<std::ops::RangeTo<usize>>(b, r) == b.subrange(0, r.end as int);

// ---- proved helper lemmas (no trust): code-point prefixes fall on byte boundaries
pub proof fn lemma_valid_split_is_boundary(b: Seq<u8>, i: int)
    requires valid_utf8(b), 0 <= i <= b.len(), valid_utf8(b.subrange(0, i)), valid_utf8(b.subrange(i, b.len() as int)),
    ensures is_char_boundary(b, i),
{
    broadcast use vstd::utf8::group_utf8_lib;
}

pub proof fn lemma_prefix_boundary(s: Seq<char>, k: int)
    requires 0 <= k <= s.len(),
    ensures is_char_boundary(encode_utf8(s), blen(s.take(k)) as int),
        blen(s.take(k)) <= blen(s),
        blen(s) == blen(s.take(k)) + blen(s.skip(k)),
        encode_utf8(s).subrange(0, blen(s.take(k)) as int) =~= encode_utf8(s.take(k)),
        encode_utf8(s).subrange(blen(s.take(k)) as int, blen(s) as int) =~= encode_utf8(s.skip(k)),
{
    broadcast use vstd::utf8::group_utf8_lib;
    assert(s =~= s.take(k) + s.skip(k));
    encode_utf8_concat(s.take(k), s.skip(k));
    encode_utf8_valid_utf8(s.take(k));
    encode_utf8_valid_utf8(s.skip(k));
    encode_utf8_valid_utf8(s);
    let b = encode_utf8(s);
    let i = encode_utf8(s.take(k)).len() as int;
    assert(b.subrange(0, i) =~= encode_utf8(s.take(k)));
    assert(b.subrange(i, b.len() as int) =~= encode_utf8(s.skip(k)));
    lemma_valid_split_is_boundary(b, i);
}

/// a text whose bytes are the encoding of `t` is `t`
pub proof fn lemma_text_of_bytes(r: &str, t: Seq<char>)
    requires r.spec_bytes() =~= encode_utf8(t),
    ensures r@ =~= t,
{
    broadcast use {vstd::string::group_string_axioms, vstd::utf8::group_utf8_lib};
    encode_utf8_decode_utf8(t);
}

/// ASCII text: one byte per character
pub proof fn lemma_blen_ascii(s: Seq<char>)
    requires forall|i: int| 0 <= i < s.len() ==> (#[trigger] s[i] as u32) < 128,
    ensures blen(s) == s.len(),
{
    broadcast use vstd::utf8::group_utf8_lib;
    is_ascii_chars_encode_utf8(s);
}

/// byte length is strictly monotone in the number of code points
pub proof fn lemma_blen_monotone(s: Seq<char>, i: int, j: int)
    requires 0 <= i < j <= s.len(),
    ensures blen(s.take(i)) < blen(s.take(j)),
{
    lemma_encode_utf8_len_strictly_monotonic(s, i, j);
}

// TRUSTED[string-from-str]: `String::from(&str)` / `<&str>::into()` copies the text (std: `impl From<&str> for String` is `to_owned`).
pub axiom fn axiom_string_from_str()
    ensures <String as vstd::std_specs::convert::FromSpec<&'static str>>::obeys_from_spec(),
        forall|s: &'static str| (#[trigger] <String as vstd::std_specs::convert::FromSpec<&'static str>>::from_spec(s))@ == s@;

// TRUSTED[string-into-string]: `String: Into<String>` is the reflexive `impl<T> From<T> for T` (identity).
pub axiom fn axiom_string_into_string()
    ensures <String as vstd::std_specs::convert::IntoSpec<String>>::obeys_into_spec(),
        forall|s: String| #[trigger] <String as vstd::std_specs::convert::IntoSpec<String>>::into_spec(s) == s;

pub broadcast group group_trusted_strings {
    axiom_string_eq_str_obeys, axiom_string_eq_str, axiom_string_eq_refstr_obeys, axiom_string_eq_refstr,
    axiom_pattern_text_str, axiom_pattern_text_string, axiom_pattern_text_char, axiom_str_len_fits,
    axiom_string_index_req_rangeto, axiom_out_bytes_str, axiom_string_index_rangeto,
    axiom_str_index_rangefrom, axiom_str_index_rangeto, axiom_ws_not_alnum,
}

}
}
