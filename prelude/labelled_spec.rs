// shared by units resolve_barrier, semver_from_zerv and pep440_from_zerv (included inside verus!{} after the extracted Var / ZervVars / Sanitizer,
// prelude/sanitize_spec.rs and the decimal text `dec` of prelude/display_text.rs); specification only, nothing trusted
// ---- the labelled values (C01 / C06: `epoch.N`, `alpha.N`, `post.N`, `dev.N`)

/// the number a variable stands for, when it is one of the numeric variables (outer None: not a numeric variable)
pub open spec fn numeric_field(v: Var, vars: ZervVars) -> Option<Option<u64>> {
    match v {
        Var::Major => Some(vars.major), Var::Minor => Some(vars.minor), Var::Patch => Some(vars.patch),
        Var::Epoch => Some(vars.epoch), Var::Post => Some(vars.post), Var::Dev => Some(vars.dev),
        Var::PreRelease => Some(match vars.pre_release { Some(pr) => pr.number, None => None }),
        Var::Distance => Some(vars.distance),
        _ => None,
    }
}
/// a string sanitiser that does not cut its result
pub open spec fn exact_cfg(cfg: Sanitizer) -> bool { cfg.target is Str && str_cfg(cfg) && cfg.max_length is None }
/// a sanitiser that returns the decimal text of a number as it is: the integer sanitiser, or an uncut string sanitiser
pub open spec fn number_cfg(cfg: Sanitizer) -> bool { cfg.target is UInt || exact_cfg(cfg) }
/// the key sanitiser of the expanded values (Sanitizer::key()): lower-case, dots, zeros stripped, uncut
pub open spec fn key_cfg(cfg: Sanitizer) -> bool {
    cfg.target is Str && cfg.separator is Some && cfg.separator->0@ == seq!['.'] && cfg.lowercase && !cfg.keep_zeros && cfg.max_length is None
}
pub open spec fn label_text(l: PreReleaseLabel) -> Seq<char> {
    match l { PreReleaseLabel::Alpha => "alpha"@, PreReleaseLabel::Beta => "beta"@, PreReleaseLabel::Rc => "rc"@ }
}
pub open spec fn is_secondary(v: Var) -> bool { v is Epoch || v is PreRelease || v is Post || v is Dev }
/// "label then number" of the four secondary variables; nothing when the variable is unset (a pre-release without number is its label alone)
pub open spec fn labelled(v: Var, vars: ZervVars) -> Seq<Seq<char>> {
    match v {
        Var::Epoch => match vars.epoch { Some(n) => seq!["epoch"@, dec(n as nat)], None => seq![] },
        Var::Post => match vars.post { Some(n) => seq!["post"@, dec(n as nat)], None => seq![] },
        Var::Dev => match vars.dev { Some(n) => seq!["dev"@, dec(n as nat)], None => seq![] },
        Var::PreRelease => match vars.pre_release {
            Some(pr) => match pr.number { Some(n) => seq![label_text(pr.label), dec(n as nat)], None => seq![label_text(pr.label)] },
            None => seq![] },
        _ => seq![],
    }
}
pub open spec fn texts_of(v: Seq<String>) -> Seq<Seq<char>> { v.map_values(|s: String| s@) }

