// ---- trusted prelude: str::to_lowercase ---------------------------------------------------------
mod trusted_lowercase {
use vstd::prelude::*;
verus! {

/// result of `str::to_lowercase`; uninterpreted: nothing is assumed about non-ASCII text.
pub uninterp spec fn str_lower(s: Seq<char>) -> Seq<char>;

// TRUSTED[str-to-lowercase]: names the result of str::to_lowercase as the uninterpreted function str_lower of the text.
pub assume_specification [str::to_lowercase] (s: &str) -> (r: String)
    ensures r@ == str_lower(s@);


}
}
