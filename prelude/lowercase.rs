// ---- trusted prelude: str::to_lowercase ---------------------------------------------------------
mod trusted_lowercase {
use vstd::prelude::*;
verus! {

/// result of `str::to_lowercase`; uninterpreted: nothing is assumed about non-ASCII text.
pub uninterp spec fn str_lower(s: Seq<char>) -> Seq<char>;

// TRUSTED[str-to-lowercase]: names the result of str::to_lowercase as the uninterpreted function str_lower of the text.
pub assume_specification [str::to_lowercase] (s: &str) -> (r: String)
    ensures r@ == str_lower(s@);

// TRUSTED[str-to-lowercase-ascii-fixed]: a text of ASCII characters without upper-case letters is its own lower-case form (std doc: to_lowercase
// changes a character only if it has the Unicode Uppercase property; among ASCII these are 'A'..='Z').
pub axiom fn axiom_str_lower_ascii_fixed(s: Seq<char>)
    requires forall|i: int| 0 <= i < s.len() ==> (#[trigger] s[i] as u32) < 128 && !('A' <= s[i] && s[i] <= 'Z')
    ensures str_lower(s) == s;

}
}
