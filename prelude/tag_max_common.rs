// ---- shared specification of GitUtils::find_max_version_tag (units semver_order and pep440_order); the including unit defines sem_ord, pep_ord
// and proves lemma_orders_total ----------------------------------------------------------
pub open spec fn variant_no(v: VersionObject) -> int { match v { VersionObject::SemVer(_) => 0, VersionObject::PEP440(_) => 1 } }
// TRUSTED[discriminant-of-VersionObject]: std::mem::discriminant distinguishes exactly the variants of the enum (std doc); the enum is extracted from /repo
pub broadcast axiom fn axiom_variant_of_version_object(v: VersionObject)
    ensures #[trigger] variant_of(v) == variant_no(v);
/// the order on version objects of one kind: sem_ord / pep_ord are defined by the including unit (the order proved of its own real `cmp`, and the
/// other format's order named and assumed to be the total order the other unit proves); lemma_orders_total states that both are total preorders
pub open spec fn vo_cmp(a: VersionObject, b: VersionObject) -> Ordering {
    match (a, b) {
        (VersionObject::SemVer(x), VersionObject::SemVer(y)) => sem_ord(x, y),
        (VersionObject::PEP440(x), VersionObject::PEP440(y)) => pep_ord(x, y),
        _ => Ordering::Equal,
    }
}
/// item k is a greatest one among the first n
pub open spec fn is_greatest(tags: Seq<(String, VersionObject)>, k: int, n: int) -> bool {
    0 <= k < n && forall|i: int| 0 <= i < n ==> vo_cmp(#[trigger] tags[i].1, tags[k].1) != Ordering::Greater
}
pub open spec fn one_kind(tags: Seq<(String, VersionObject)>, n: int) -> bool {
    forall|i: int| 0 <= i < n ==> variant_no(#[trigger] tags[i].1) == variant_no(tags[0].1)
}
/// a later item that is not below the greatest one so far is a greatest one of the longer prefix (transitivity of both orders)
pub proof fn lemma_new_greatest(tags: Seq<(String, VersionObject)>, k: int, n: int)
    requires is_greatest(tags, k, n), n < tags.len(), one_kind(tags, n + 1), vo_cmp(tags[k].1, tags[n].1) != Ordering::Greater
    ensures is_greatest(tags, n, n + 1)
{
    lemma_orders_total();
    assert forall|i: int| 0 <= i < n + 1 implies vo_cmp(#[trigger] tags[i].1, tags[n].1) != Ordering::Greater by {
        assert(variant_no(tags[i].1) == variant_no(tags[0].1) && variant_no(tags[n].1) == variant_no(tags[0].1) && variant_no(tags[k].1) == variant_no(tags[0].1));
        if i < n {
            match (tags[i].1, tags[k].1, tags[n].1) {
                (VersionObject::SemVer(x), VersionObject::SemVer(y), VersionObject::SemVer(z)) => { }
                (VersionObject::PEP440(x), VersionObject::PEP440(y), VersionObject::PEP440(z)) => { }
                _ => { }
            }
        } else {
            
        }
    }
}
/// the first item is a greatest one of the prefix of length one
pub proof fn lemma_first_greatest(tags: Seq<(String, VersionObject)>)
    requires tags.len() > 0
    ensures is_greatest(tags, 0, 1)
{
    lemma_orders_total();
    
}
/// the greatest one so far stays a greatest one when the next item is strictly below it
pub proof fn lemma_keep_greatest(tags: Seq<(String, VersionObject)>, k: int, n: int)
    requires is_greatest(tags, k, n), n < tags.len(), one_kind(tags, n + 1), vo_cmp(tags[k].1, tags[n].1) == Ordering::Greater
    ensures is_greatest(tags, k, n + 1)
{
    lemma_orders_total();
    assert(variant_no(tags[n].1) == variant_no(tags[0].1) && variant_no(tags[k].1) == variant_no(tags[0].1));
    match (tags[k].1, tags[n].1) {
        (VersionObject::SemVer(x), VersionObject::SemVer(y)) => { }
        _ => { }
    }
}

