// ---- trusted prelude: `[String]::join(&str)` ---------------------------------------------------------
// needs `#![feature(slice_concat_trait)]` at the top of the generated file (std::slice::Join is an unstable trait name)
mod trusted_join {
use vstd::prelude::*;
verus! {

// TRUSTED[join-trait-declared]: declares std::slice::Join (name and associated Output type only) so that `join` can be given a specification.
#[verifier::external_trait_specification]
pub trait ExJoin<Separator> {
    type ExternalTraitSpecificationFor: std::slice::Join<Separator>;
    type Output;
}

/// result of `slice.join(sep)` (fixed below for String pieces and a &str separator)
pub uninterp spec fn join_spec<T, S, O>(s: Seq<T>, sep: S) -> O;

// TRUSTED[slice-join]: names the result of `[T]::join(sep)`.
pub assume_specification<T, Separator> [<[T]>::join::<Separator>] (s: &[T], sep: Separator) -> (r: <[T] as std::slice::Join<Separator>>::Output)
    where [T]: std::slice::Join<Separator>
    ensures r == join_spec::<T, Separator, <[T] as std::slice::Join<Separator>>::Output>(s@, sep);

/// the pieces in order with `sep` between consecutive pieces
pub open spec fn concat_with(parts: Seq<Seq<char>>, sep: Seq<char>) -> Seq<char>
    decreases parts.len()
{
    if parts.len() == 0 { Seq::empty() }
    else if parts.len() == 1 { parts[0] }
    else { parts[0] + sep + concat_with(parts.skip(1), sep) }
}

// TRUSTED[string-join]: joining Strings with a &str separator concatenates them in order with the separator between (std doc).
pub broadcast axiom fn axiom_string_join(s: Seq<String>, sep: &str)
    ensures (#[trigger] join_spec::<String, &str, String>(s, sep))@ == concat_with(s.map_values(|x: String| x@), sep@);

}
}
