// shared by units pep440_local and pep440_parse (included inside verus!{} after prelude/sanitize_spec.rs, numeric_text.rs and the declaration of SegView):
// what the text after `+` of a PEP 440 version becomes, written from C09's sentence. Specification only, nothing trusted.

/// `-` and `_` read as `.` ("dot-separated": PEP 440 allows the three separators in a local version and normalises them to the dot)
pub open spec fn dotted(s: Seq<char>) -> Seq<char> { s.map_values(|c: char| if c == '-' || c == '_' { '.' } else { c }) }
pub open spec fn alnum_word(p: Seq<char>) -> bool { p.len() > 0 && forall|i: int| 0 <= i < p.len() ==> is_an(#[trigger] p[i]) }
/// the local text the grammar admits (Appendix B: `[a-z0-9]+(?:[-_\.][a-z0-9]+)*`, case-insensitive): after reading `-` and `_` as `.`, every part
/// between dots is a non-empty run of ASCII letters and digits
pub open spec fn local_text_ok(t: Seq<char>) -> bool {
    forall|i: int| 0 <= i < split_spec(dotted(t), '.').len() ==> alnum_word(#[trigger] split_spec(dotted(t), '.')[i])
}
/// what one part becomes: a number that fits u32 is kept by value ("every number preserved exactly"); anything else is the lower-cased text, a purely
/// numeric one (too large for u32) without its leading zeros ("numeric parts normalised")
pub open spec fn seg_of(p: Seq<char>) -> SegView {
    if numeric(p) && val(p) <= u32::MAX as nat { SegView::UInt(val(p) as u32) } else { SegView::Str(seg_fix(lower_text(p))) }
}
/// the segments of a local text: one per part
pub open spec fn segments_of(t: Seq<char>) -> Seq<SegView> { split_spec(dotted(t), '.').map_values(|p: Seq<char>| seg_of(p)) }
