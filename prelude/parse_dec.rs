// ---- trusted prelude: str::parse::<u64> on decimal texts ------------------------------------------------
mod trusted_parse_dec {
use vstd::prelude::*;
use super::trusted_strings::*;
use super::trusted_parse::*;
use super::trusted_display_text::*;
verus! {

// TRUSTED[parse-u64-of-decimal-text]: `t.parse::<u64>()` of the decimal text of a u64 gives that number back (std: FromStr for u64
// is the inverse of Display).
pub broadcast axiom fn axiom_parse_u64_dec(n: u64)
    ensures #[trigger] parse_spec::<u64>(dec(n as nat)) == Some(n);

// TRUSTED[parse-u64-needs-digits]: a text that parses as u64 is non-empty and consists of ASCII digits after an optional leading `+`
// (std: "an optional + sign followed by digits").
pub axiom fn axiom_parse_u64_needs_digits(t: Seq<char>)
    requires parse_spec::<u64>(t) is Some
    ensures t.len() > 0, forall|i: int| 0 <= i < t.len() ==> is_ascii_digit_c(#[trigger] t[i]) || (i == 0 && t[0] == '+');


// TRUSTED[parse-u64-canonical-text]: a canonical decimal text (digits, no leading zero unless it is "0") that parses as u64 is the decimal text of
// the parsed number (std: Display for u64 is the inverse of FromStr on canonical numerals).
pub axiom fn axiom_parse_u64_canonical(t: Seq<char>)
    requires parse_spec::<u64>(t) is Some, t.len() > 0, forall|i: int| 0 <= i < t.len() ==> is_ascii_digit_c(#[trigger] t[i]), t.len() == 1 || t[0] != '0'
    ensures dec(parse_spec::<u64>(t)->0 as nat) == t;

// TRUSTED[parse-u32-needs-digits]: a text that parses as u32 is non-empty and consists of ASCII digits after an optional leading `+`
// (std: "an optional + sign followed by digits").
pub axiom fn axiom_parse_u32_needs_digits(t: Seq<char>)
    requires parse_spec::<u32>(t) is Some
    ensures t.len() > 0, forall|i: int| 0 <= i < t.len() ==> is_ascii_digit_c(#[trigger] t[i]) || (i == 0 && t[0] == '+');

// TRUSTED[parse-u32-of-decimal-text]: `t.parse::<u32>()` of a decimal text gives the number when it fits in 32 bits and fails otherwise
// (std: FromStr for u32 reports overflow as an error).
pub broadcast axiom fn axiom_parse_u32_dec(n: u64)
    ensures #[trigger] parse_spec::<u32>(dec(n as nat)) == (if n <= u32::MAX as u64 { Some(n as u32) } else { None::<u32> });

}
}
