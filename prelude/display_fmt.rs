// ---- trusted prelude: `impl fmt::Display` under contract (rule E32) --------------------------------
// core::fmt::Formatter is outside Verus' reach. The real `impl fmt::Display for T { fn fmt(&self, f: &mut fmt::Formatter<'_>) -> fmt::Result }`
// blocks of the repository are emitted as impls of the mirror trait `VxDisplay` (extract option as_trait=VxDisplay, type substitution
// fmt::Formatter<'_> => VxFormatter, fmt::Result => VxFmtResult), whose `fmt` carries the contract "on success the formatter's output is its old
// output followed by the text the unit's specification gives for the value" (`VxDisplayText::text`). Verus checks the repository's body against it.
mod trusted_display_fmt {
use vstd::prelude::*;
use vstd::string::*;
use super::trusted_display_text::*;
verus! {

// ASSUMED[opaque-formatter]: core::fmt::Formatter abstracted to the text written to it so far (E6)
#[verifier::external_body]
pub struct VxFormatter { _b: String }
impl VxFormatter { pub uninterp spec fn view(&self) -> Seq<char>; }
pub struct VxFmtError;
pub type VxFmtResult = Result<(), VxFmtError>;

/// the text a unit's specification gives for a value of the type (for the repository's types: written in the unit, from the property statement)
pub trait VxDisplayText {
    spec fn text(&self) -> Seq<char>;
}
/// mirror of core::fmt::Display
pub trait VxDisplay: VxDisplayText {
    fn fmt(&self, f: &mut VxFormatter) -> (r: VxFmtResult)
        ensures r is Ok ==> final(f)@ == old(f)@ + self.text();
}

// TRUSTED[write-one-placeholder]: `write!(f, "{}", x)` = `f.write_fmt(format_args!("{}", x))` appends what `x`'s Display writes and returns its
// result (core::fmt: a single plain placeholder, no literal pieces, no format spec) — rule E32 turns the macro call into this function
#[verifier::external_body]
pub fn vx_write_display<T: VxDisplay>(f: &mut VxFormatter, x: &T) -> (r: VxFmtResult)
    ensures r is Ok ==> final(f)@ == old(f)@ + x.text()
{ unimplemented!() }

// TRUSTED[display-of-string]: Display for String / str writes the text (std)
impl VxDisplayText for String { open spec fn text(&self) -> Seq<char> { self@ } }
impl VxDisplay for String {
    // TRUSTED[display-of-string]: see above
    #[verifier::external_body]
    fn fmt(&self, f: &mut VxFormatter) -> (r: VxFmtResult) { unimplemented!() }
}
// TRUSTED[display-of-u64]: Display for u64 writes the decimal text without sign or padding (std)
impl VxDisplayText for u64 { open spec fn text(&self) -> Seq<char> { dec(*self as nat) } }
impl VxDisplay for u64 {
    // TRUSTED[display-of-u64]: see above
    #[verifier::external_body]
    fn fmt(&self, f: &mut VxFormatter) -> (r: VxFmtResult) { unimplemented!() }
}
// TRUSTED[display-of-u32]: Display for u32 writes the decimal text without sign or padding (std)
impl VxDisplayText for u32 { open spec fn text(&self) -> Seq<char> { dec(*self as nat) } }
impl VxDisplay for u32 {
    // TRUSTED[display-of-u32]: see above
    #[verifier::external_body]
    fn fmt(&self, f: &mut VxFormatter) -> (r: VxFmtResult) { unimplemented!() }
}
// TRUSTED[display-of-ref]: Display for &T is Display for T (std: `impl<T: Display + ?Sized> Display for &T` forwards)
impl<T: VxDisplayText> VxDisplayText for &T { open spec fn text(&self) -> Seq<char> { (**self).text() } }
impl<T: VxDisplay> VxDisplay for &T {
    // TRUSTED[display-of-ref]: see above
    #[verifier::external_body]
    fn fmt(&self, f: &mut VxFormatter) -> (r: VxFmtResult) { unimplemented!() }
}

// TRUSTED[to-string-is-fmt]: `x.to_string()` is the text `x`'s Display::fmt writes into an empty buffer (std: the blanket `impl<T: Display> ToString
// for T`; a Display impl that returns an error makes to_string panic — the impls here return what `write!` returns). With it, what `to_string`
// gives for a repository type is *derived* from the contract proved of that type's real `fmt` body instead of being assumed per type.
pub broadcast axiom fn axiom_to_string_is_fmt<T: VxDisplay + std::fmt::Display>(x: &T, res: String)
    requires #[trigger] to_string_from_display_ensures::<T>(x, res),
    ensures res@ == x.text();

}
}
