// proved lemma connecting prelude/split.rs and prelude/join.rs (included inside verus!{} after both); nothing trusted

/// joining the items of a split with the separator gives the text back (needs prelude/join.rs for concat_with)
pub proof fn lemma_join_of_split(s: Seq<char>, c: char)
    ensures concat_with(split_spec(s, c), seq![c]) == s
    decreases s.len()
{
    lemma_split_nonempty(s, c);
    if s.len() > 0 {
        let t = s.drop_first();
        lemma_join_of_split(t, c);
        lemma_split_nonempty(t, c);
        let rest = split_spec(t, c);
        if s[0] == c {
            let all = seq![Seq::<char>::empty()] + rest;
            assert(all.skip(1) =~= rest);
            assert(all.len() >= 2);
            assert(concat_with(all, seq![c]) == all[0] + seq![c] + concat_with(all.skip(1), seq![c]));
            assert(Seq::<char>::empty() + seq![c] + t =~= s);
        } else {
            let all = rest.update(0, seq![s[0]] + rest[0]);
            if rest.len() == 1 {
                assert(concat_with(rest, seq![c]) == rest[0]);
                assert(concat_with(all, seq![c]) == all[0]);
                assert(seq![s[0]] + t =~= s);
            } else {
                assert(all.skip(1) =~= rest.skip(1));
                assert(concat_with(rest, seq![c]) == rest[0] + seq![c] + concat_with(rest.skip(1), seq![c]));
                assert(concat_with(all, seq![c]) == all[0] + seq![c] + concat_with(all.skip(1), seq![c]));
                assert((seq![s[0]] + rest[0]) + seq![c] + concat_with(rest.skip(1), seq![c]) =~= seq![s[0]] + (rest[0] + seq![c] + concat_with(rest.skip(1), seq![c])));
                assert(seq![s[0]] + t =~= s);
            }
        }
    } else {
        assert(concat_with(seq![Seq::<char>::empty()], seq![c]) =~= s);
    }
}
