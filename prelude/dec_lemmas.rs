// proved lemmas about the decimal text `dec` (included inside verus!{} after prelude/sanitize_spec.rs; nothing trusted here)

pub proof fn lemma_dec_shape(n: nat)
    ensures dec(n).len() > 0, all_digits(dec(n)), (dec(n)[0] == '0' ==> dec(n).len() == 1), dec(n)[0] == '0' <==> n == 0,
    decreases n
{
    if n >= 10 {
        lemma_dec_shape(n / 10);
        let a = dec(n / 10);
        assert(dec(n) == a.push(digit_c((n % 10) as int)));
        assert(dec(n)[0] == a[0]);
        assert forall|i: int| 0 <= i < dec(n).len() implies is_ascii_digit_c(#[trigger] dec(n)[i]) by {
            if i < a.len() { assert(dec(n)[i] == a[i]); }
        }
    }
    // CANARY[lemma_dec_shape]
}

pub proof fn lemma_first_sep_absent(s: Seq<char>, d: char)
    requires forall|i: int| 0 <= i < s.len() ==> #[trigger] s[i] != d
    ensures first_sep(s, d) == s.len()
    decreases s.len()
{
    if s.len() > 0 {
        assert(s[0] != d);
        assert forall|i: int| 0 <= i < s.skip(1).len() implies #[trigger] s.skip(1)[i] != d by { assert(s.skip(1)[i] == s[i + 1]); }
        lemma_first_sep_absent(s.skip(1), d);
    }
}

/// a separator-free text of ASCII letters/digits that is not a zero-padded number is what the string sanitiser leaves alone
pub proof fn lemma_plain_text_is_sanitized(t: Seq<char>, cfg: Sanitizer)
    requires str_cfg(cfg), cfg.max_length is None, t.len() > 0,
        forall|i: int| 0 <= i < t.len() ==> is_an(#[trigger] t[i]),
        cfg.lowercase ==> no_upper(t), !cfg.keep_zeros ==> !bad_seg(t),
    ensures is_sanitized(t, cfg)
{
    let d = cfg.separator->0@[0];
    assert forall|i: int| 0 <= i < t.len() implies #[trigger] t[i] != d by { assert(is_an(t[i])); }
    lemma_first_sep_absent(t, d);
    assert(t[0] != d && t[t.len() - 1] != d);
    // CANARY[lemma_plain_text_is_sanitized]
}

/// the decimal text of a number is such a text
pub broadcast proof fn lemma_dec_is_sanitized(n: nat, cfg: Sanitizer)
    requires str_cfg(cfg), cfg.max_length is None
    ensures #[trigger] is_sanitized(dec(n), cfg)
{
    lemma_dec_shape(n);
    let t = dec(n);
    assert forall|i: int| 0 <= i < t.len() implies is_an(#[trigger] t[i]) by { assert(is_ascii_digit_c(t[i])); }
    assert(no_upper(t)) by { assert forall|i: int| 0 <= i < t.len() implies !('A' <= #[trigger] t[i] && t[i] <= 'Z') by { assert(is_ascii_digit_c(t[i])); } }
    lemma_plain_text_is_sanitized(t, cfg);
    // CANARY[lemma_dec_is_sanitized]
}

/// the integer sanitiser returns the decimal text of a number unchanged
pub broadcast proof fn lemma_dec_uint_result(n: nat, keep_zeros: bool)
    ensures #[trigger] uint_result(trim_ws_end(trim_ws_start(dec(n))), keep_zeros) == dec(n)
{
    lemma_dec_shape(n);
    let t = dec(n);
    assert(is_ascii_digit_c(t[0]) && is_ascii_digit_c(t[t.len() - 1]));
    axiom_ws_not_alnum(t[0]);
    axiom_ws_not_alnum(t[t.len() - 1]);
    assert(trim_ws_start(t) == t);
    assert(trim_ws_end(t) == t);
    assert(strip_zeros(t) == t);
    // CANARY[lemma_dec_uint_result]
}
