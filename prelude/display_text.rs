// ---- trusted prelude: decimal text of integers (Display) ------------------------------------------
mod trusted_display_text {
use vstd::prelude::*;
use vstd::string::*;
verus! {

/// the decimal text `Display` prints for a u32 (uninterpreted: only named)
pub uninterp spec fn u32_text(n: u32) -> Seq<char>;

// TRUSTED[u32-to-string-deterministic]: `n.to_string()` of a u32 is a function of n (vstd leaves the relation
// to_string_from_display_ensures uninterpreted for integers); its text is named u32_text(n).
pub broadcast axiom fn axiom_u32_to_string(n: &u32, res: String)
    requires #[trigger] to_string_from_display_ensures::<u32>(n, res),
    ensures res@ == u32_text(*n);

}
}
