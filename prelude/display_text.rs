// ---- trusted prelude: decimal text of integers (Display) ------------------------------------------
mod trusted_display_text {
use vstd::prelude::*;
use vstd::string::*;
verus! {

/// the decimal digit character of d (0..=9)
pub open spec fn digit_c(d: int) -> char { (48 + d) as u8 as char }
/// the decimal text of a natural number: no sign, no padding, "0" for zero
pub open spec fn dec(n: nat) -> Seq<char>
    decreases n
{
    if n < 10 { seq![digit_c(n as int)] } else { dec(n / 10).push(digit_c((n % 10) as int)) }
}

/// the decimal text `Display` prints for a u32 (closed, so that units that only name it do not pay for unfolding `dec`)
pub closed spec fn u32_text(n: u32) -> Seq<char> { dec(n as nat) }
pub proof fn lemma_u32_text(n: u32)
    ensures u32_text(n) == dec(n as nat)
{
}

// TRUSTED[u32-to-string-decimal]: `n.to_string()` of a u32 is its decimal text without sign or padding (std: Display for integers; vstd
// leaves to_string_from_display_ensures uninterpreted for integers).
pub broadcast axiom fn axiom_u32_to_string(n: &u32, res: String)
    requires #[trigger] to_string_from_display_ensures::<u32>(n, res),
    ensures res@ == u32_text(*n);

// TRUSTED[string-to-string]: `s.to_string()` of a String is a String with the same text (std: Display for String writes the text).
pub broadcast axiom fn axiom_string_to_string(s: &String, res: String)
    requires #[trigger] to_string_from_display_ensures::<String>(s, res),
    ensures res@ == s@;

// TRUSTED[u64-to-string-decimal]: `n.to_string()` of a u64 is its decimal text without sign or padding (std: Display for
// integers; vstd leaves to_string_from_display_ensures uninterpreted for integers).
pub broadcast axiom fn axiom_u64_to_string(n: &u64, res: String)
    requires #[trigger] to_string_from_display_ensures::<u64>(n, res),
    ensures res@ == dec(*n as nat);

}
}
