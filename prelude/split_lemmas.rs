// proved lemmas connecting split_spec (prelude/split.rs) with the sanitiser's specification (prelude/sanitize_spec.rs);
// included inside verus!{} after both. Nothing here is trusted.

/// the first item is the text before the first separator; the other items are the items of the rest
pub proof fn lemma_split_first(s: Seq<char>, d: char)
    ensures
        0 <= first_sep(s, d) <= s.len(),
        split_spec(s, d).len() >= 1,
        split_spec(s, d)[0] == s.take(first_sep(s, d)),
        first_sep(s, d) < s.len() ==> s[first_sep(s, d)] == d && split_spec(s, d) == seq![s.take(first_sep(s, d))] + split_spec(s.skip(first_sep(s, d) + 1), d),
        first_sep(s, d) == s.len() ==> split_spec(s, d) == seq![s],
    decreases s.len()
{
    lemma_split_nonempty(s, d);
    if s.len() == 0 {
        assert(s.take(0) =~= s);
    } else if s[0] == d {
        assert(s.take(0) =~= Seq::<char>::empty());
        assert(s.skip(1) =~= s.drop_first());
        assert(split_spec(s, d)[0] == Seq::<char>::empty());
    } else {
        let t = s.drop_first();
        lemma_split_first(t, d);
        assert(s.skip(1) =~= t);
        let k = first_sep(t, d);
        assert(first_sep(s, d) == 1 + k);
        let rest = split_spec(t, d);
        assert(split_spec(s, d) == rest.update(0, seq![s[0]] + rest[0]));
        assert(seq![s[0]] + t.take(k) =~= s.take(k + 1));
        if k < t.len() {
            assert(t.skip(k + 1) =~= s.skip(k + 2));
            assert(rest.update(0, seq![s[0]] + rest[0]) =~= seq![s.take(k + 1)] + split_spec(s.skip(k + 2), d));
        } else {
            assert(t.take(k) =~= t);
            assert(s.take(k + 1) =~= s);
            assert(rest.update(0, seq![s[0]] + rest[0]) =~= seq![s]);
        }
    }
}

/// a sanitised text ("well separated", zero-free) splits into parts that are themselves clean and separator-free:
/// every part is non-empty, all ASCII alphanumeric, and not an all-digit text with a leading zero
pub proof fn lemma_parts_of_clean_text(s: Seq<char>, d: char)
    requires !is_an(d), s.len() > 0 ==> well_separated(s, d), zero_free(s, d)
    ensures forall|i: int| 0 <= i < split_spec(s, d).len() ==> {
        let p = #[trigger] split_spec(s, d)[i];
        &&& (s.len() > 0 ==> p.len() > 0)
        &&& (forall|j: int| 0 <= j < p.len() ==> is_an(#[trigger] p[j]))
        &&& !bad_seg(p)
    }
    decreases s.len()
{
    lemma_split_first(s, d);
    let k = first_sep(s, d);
    if s.len() == 0 {
        assert(split_spec(s, d) =~= seq![s]);
    } else if k == s.len() {
        lemma_no_sep_before_first(s, d, s.len() as int);
    } else {
        let head = s.take(k);
        let tail = s.skip(k + 1);
        lemma_no_sep_before_first(s, d, k);
        // well_separated: s[0] != d so k > 0; last char is not d so k + 1 < len; no doubled d so tail[0] != d
        assert(k > 0);
        assert(k < s.len() - 1) by { if k == s.len() - 1 { assert(s[s.len() - 1] == d); } }
        assert(tail.len() > 0);
        assert(well_separated(tail, d)) by {
            assert forall|i: int| 0 <= i < tail.len() implies is_an(#[trigger] tail[i]) || tail[i] == d by { assert(tail[i] == s[k + 1 + i]); }
            assert(tail[0] != d) by { assert(tail[0] == s[k + 1]); assert(!(s[k] == d && s[k + 1] == d)); }
            assert(tail[tail.len() - 1] == s[s.len() - 1]);
            assert forall|i: int| 0 <= i < tail.len() - 1 implies !(#[trigger] tail[i] == d && tail[i + 1] == d) by {
                assert(tail[i] == s[k + 1 + i]); assert(tail[i + 1] == s[k + 1 + i + 1]);
                assert(!(s[k + 1 + i] == d && s[k + 1 + i + 1] == d));
            }
        }
        lemma_parts_of_clean_text(tail, d);
        assert forall|i: int| 0 <= i < split_spec(s, d).len() implies ({
            let p = #[trigger] split_spec(s, d)[i];
            &&& (s.len() > 0 ==> p.len() > 0)
            &&& (forall|j: int| 0 <= j < p.len() ==> is_an(#[trigger] p[j]))
            &&& !bad_seg(p)
        }) by {
            if i == 0 {
                assert(split_spec(s, d)[0] == head);
                assert forall|j: int| 0 <= j < head.len() implies is_an(#[trigger] head[j]) by { assert(head[j] == s[j]); }
            } else {
                assert(split_spec(s, d)[i] == split_spec(tail, d)[i - 1]);
            }
        }
    }
}

/// before the first separator there is no separator
pub proof fn lemma_no_sep_before_first(s: Seq<char>, d: char, k: int)
    requires k == first_sep(s, d)
    ensures 0 <= k <= s.len(), forall|j: int| 0 <= j < k ==> s[j] != d, k < s.len() ==> s[k] == d
    decreases s.len()
{
    if s.len() == 0 || s[0] == d {
    } else {
        lemma_no_sep_before_first(s.skip(1), d, k - 1);
        assert forall|j: int| 0 <= j < k implies s[j] != d by { if j > 0 { assert(s[j] == s.skip(1)[j - 1]); } }
        if k < s.len() { assert(s[k] == s.skip(1)[k - 1]); }
    }
}

/// a text without the separator splits into itself alone
pub proof fn lemma_split_without_sep(s: Seq<char>, c: char)
    requires forall|i: int| 0 <= i < s.len() ==> #[trigger] s[i] != c
    ensures split_spec(s, c) =~= seq![s]
    decreases s.len()
{
    if s.len() > 0 {
        let t = s.drop_first();
        assert forall|i: int| 0 <= i < t.len() implies #[trigger] t[i] != c by { assert(t[i] == s[i + 1]); }
        lemma_split_without_sep(t, c);
        assert(split_spec(t, c) =~= seq![t]);
        assert(s[0] != c);
        let rest = split_spec(t, c);
        assert(rest.len() == 1 && rest[0] == t);
        assert(split_spec(s, c) == rest.update(0, seq![s[0]] + rest[0]));
        assert(seq![s[0]] + t =~= s);
        assert(split_spec(s, c).len() == 1);
        assert(split_spec(s, c)[0] =~= s);
    } else {
        assert(split_spec(s, c)[0] =~= s);
    }
}

