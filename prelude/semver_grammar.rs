// shared by units semver_parts and semver_from_zerv (included inside verus!{} after prelude/strings.rs and prelude/join.rs): the SemVer 2.0.0
// grammar (https://semver.org, "Backus–Naur Form Grammar for Valid SemVer Versions") on texts. Specification only, nothing trusted.

/// <identifier characters>: ASCII letters, digits and the hyphen
pub open spec fn id_char(c: char) -> bool { is_ascii_alnum_c(c) || c == '-' }
pub open spec fn all_id_chars(t: Seq<char>) -> bool { forall|i: int| 0 <= i < t.len() ==> id_char(#[trigger] t[i]) }
pub open spec fn only_digits(t: Seq<char>) -> bool { forall|i: int| 0 <= i < t.len() ==> is_ascii_digit_c(#[trigger] t[i]) }
/// <numeric identifier>: "0", or digits not starting with 0
pub open spec fn is_num_id(t: Seq<char>) -> bool { t.len() > 0 && only_digits(t) && (t.len() == 1 || t[0] != '0') }
/// <alphanumeric identifier>: identifier characters with at least one non-digit
pub open spec fn is_alnum_id(t: Seq<char>) -> bool { t.len() > 0 && all_id_chars(t) && !only_digits(t) }
/// <pre-release identifier>
pub open spec fn is_pre_id(t: Seq<char>) -> bool { is_num_id(t) || is_alnum_id(t) }
/// <build identifier>: identifier characters (digits may start with 0)
pub open spec fn is_build_id(t: Seq<char>) -> bool { t.len() > 0 && all_id_chars(t) }
/// the text of a version from its pieces: <version core> ["-" <dot-separated pre-release identifiers>] ["+" <dot-separated build identifiers>]
pub open spec fn semver_text(ma: Seq<char>, mi: Seq<char>, pa: Seq<char>, pre: Seq<Seq<char>>, build: Seq<Seq<char>>) -> Seq<char> {
    ma + seq!['.'] + mi + seq!['.'] + pa
        + (if pre.len() > 0 { seq!['-'] + concat_with(pre, seq!['.']) } else { Seq::<char>::empty() })
        + (if build.len() > 0 { seq!['+'] + concat_with(build, seq!['.']) } else { Seq::<char>::empty() })
}
/// <valid semver>
pub open spec fn valid_semver(s: Seq<char>) -> bool {
    exists|ma: Seq<char>, mi: Seq<char>, pa: Seq<char>, pre: Seq<Seq<char>>, build: Seq<Seq<char>>|
        #[trigger] semver_text(ma, mi, pa, pre, build) == s && is_num_id(ma) && is_num_id(mi) && is_num_id(pa)
        && (forall|i: int| 0 <= i < pre.len() ==> is_pre_id(#[trigger] pre[i]))
        && (forall|i: int| 0 <= i < build.len() ==> is_build_id(#[trigger] build[i]))
}
