// shared by units sanitize and resolve_barrier (included inside verus!{} after the extracted Sanitizer struct)
// ===================== specification, written from the property statement =====================

/// ASCII letter or digit
pub open spec fn is_an(c: char) -> bool { is_ascii_alnum_c(c) }

/// the separator settings the statement quantifies over: one non-alphanumeric ASCII character ('.', '-', '_')
pub open spec fn good_sep(sep: Seq<char>) -> bool {
    sep.len() == 1 && !is_an(sep[0]) && (sep[0] as u32) < 128
}

/// "the maximal runs of ASCII letters and digits of the input, in order, joined by single separators"
pub open spec fn rj(s: Seq<char>, d: char) -> Seq<char>
    decreases s.len()
{
    if s.len() == 0 {
        Seq::empty()
    } else if !is_an(s[0]) {
        rj(s.skip(1), d)
    } else {
        let rest = s.skip(1);
        if rest.len() == 0 || is_an(rest[0]) {
            seq![s[0]] + rj(rest, d)
        } else {
            let tail = rj(rest, d);
            if tail.len() == 0 { seq![s[0]] } else { seq![s[0], d] + tail }
        }
    }
}

/// "no other character, no leading, trailing or doubled separator"
pub open spec fn well_separated(s: Seq<char>, d: char) -> bool {
    &&& forall|i: int| 0 <= i < s.len() ==> is_an(#[trigger] s[i]) || s[i] == d
    &&& (s.len() > 0 ==> s[0] != d && s[s.len() - 1] != d)
    &&& forall|i: int| 0 <= i < s.len() - 1 ==> !(#[trigger] s[i] == d && s[i + 1] == d)
}

pub open spec fn lower_text(s: Seq<char>) -> Seq<char> { s.map_values(|c: char| ascii_lower_c(c)) }

pub open spec fn all_digits(s: Seq<char>) -> bool { forall|i: int| 0 <= i < s.len() ==> is_ascii_digit_c(#[trigger] s[i]) }

/// digits of a purely numeric text without leading zeros ("0" if nothing but zeros)
pub open spec fn strip_zeros(s: Seq<char>) -> Seq<char>
    decreases s.len()
{
    if s.len() > 1 && s[0] == '0' { strip_zeros(s.skip(1)) } else { s }
}

/// "the integer sanitiser returns the digits of a purely numeric input without leading zeros and the empty string
/// for anything else" (keep_zeros keeps the digits as they are)
pub open spec fn uint_result(s: Seq<char>, keep_zeros: bool) -> Seq<char> {
    if s.len() > 0 && all_digits(s) { if keep_zeros { s } else { strip_zeros(s) } } else { Seq::empty() }
}


// ---- numeric segments ("no all-digit segment with a leading zero unless zeros are kept")

/// what happens to one separator-free segment
pub open spec fn seg_fix(seg: Seq<char>) -> Seq<char> {
    if seg.len() > 0 && all_digits(seg) { strip_zeros(seg) } else { seg }
}

/// index of the first `d` in s, or s.len()
pub open spec fn first_sep(s: Seq<char>, d: char) -> int
    decreases s.len()
{
    if s.len() == 0 || s[0] == d { 0 } else { 1 + first_sep(s.skip(1), d) }
}

/// the zero-stripping stage on a whole text: every segment between separators is fixed, separators are kept
/// (contract of remove_leading_zeros, which is str::split/map/join code: ASSUMED, see the extract block)
pub open spec fn zs(s: Seq<char>, d: char) -> Seq<char>
    decreases s.len()
{
    let k = first_sep(s, d);
    if k < 0 || k >= s.len() { seg_fix(s) } else { seg_fix(s.take(k)) + seq![d] + zs(s.skip(k + 1), d) }
}

/// a segment that would be changed by the zero-stripping stage
pub open spec fn bad_seg(seg: Seq<char>) -> bool { seg.len() > 1 && all_digits(seg) && seg[0] == '0' }

/// "no all-digit segment with a leading zero"
pub open spec fn zero_free(s: Seq<char>, d: char) -> bool
    decreases s.len()
{
    let k = first_sep(s, d);
    if k < 0 || k >= s.len() { !bad_seg(s) } else { !bad_seg(s.take(k)) && zero_free(s.skip(k + 1), d) }
}

pub open spec fn no_upper(s: Seq<char>) -> bool { forall|i: int| 0 <= i < s.len() ==> !('A' <= #[trigger] s[i] && s[i] <= 'Z') }

/// the complete sentence of the statement for a finished output
pub open spec fn is_sanitized(out: Seq<char>, cfg: Sanitizer) -> bool {
    let d = cfg.separator->0@[0];
    &&& well_separated(out, d)
    &&& (!cfg.keep_zeros ==> zero_free(out, d))
    &&& (cfg.lowercase ==> no_upper(out))
    &&& (cfg.max_length is Some ==> out.len() <= cfg.max_length->0)
}

/// configuration the string clauses of the statement talk about
pub open spec fn str_cfg(cfg: Sanitizer) -> bool {
    cfg.separator is Some && good_sep(cfg.separator->0@)
}


/// what every result of the integer sanitiser looks like: empty, or digits (without a leading zero unless zeros are kept)
pub open spec fn is_uint_text(out: Seq<char>, keep_zeros: bool) -> bool {
    out.len() == 0 || (all_digits(out) && (keep_zeros || !bad_seg(out)))
}

/// the input-independent part of the sanitiser's postcondition: what every sanitised value satisfies
pub open spec fn sanitize_post(out: Seq<char>, cfg: Sanitizer) -> bool {
    &&& (cfg.target is Str && str_cfg(cfg)) ==> is_sanitized(out, cfg)
    &&& cfg.target is UInt ==> is_uint_text(out, cfg.keep_zeros)
}
