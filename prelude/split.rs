// ---- trusted prelude: str::split(char) as the vector of its items; Option::get_or_insert_with ---------------
mod trusted_split {
use vstd::prelude::*;
verus! {

/// the items `s.split(c)` yields, in order: the maximal runs between occurrences of `c` (an empty text yields one empty item)
pub open spec fn split_spec(s: Seq<char>, c: char) -> Seq<Seq<char>>
    decreases s.len()
{
    if s.len() == 0 { seq![Seq::<char>::empty()] }
    else {
        let rest = split_spec(s.drop_first(), c);
        if s[0] == c { seq![Seq::<char>::empty()] + rest }
        else { rest.update(0, seq![s[0]] + rest[0]) }
    }
}

/// there is always at least one item
pub proof fn lemma_split_nonempty(s: Seq<char>, c: char)
    ensures split_spec(s, c).len() >= 1
    decreases s.len()
{
    if s.len() > 0 { lemma_split_nonempty(s.drop_first(), c); }
}

/// no item contains the separator
pub proof fn lemma_split_no_sep(s: Seq<char>, c: char)
    ensures forall|i: int, j: int| 0 <= i < split_spec(s, c).len() && 0 <= j < split_spec(s, c)[i].len() ==> split_spec(s, c)[i][j] != c
    decreases s.len()
{
    lemma_split_nonempty(s, c);
    if s.len() > 0 {
        lemma_split_no_sep(s.drop_first(), c);
        lemma_split_nonempty(s.drop_first(), c);
        let rest = split_spec(s.drop_first(), c);
        if s[0] == c {
            assert forall|i: int, j: int| 0 <= i < split_spec(s, c).len() && 0 <= j < split_spec(s, c)[i].len() implies split_spec(s, c)[i][j] != c by {
                if i > 0 { assert(split_spec(s, c)[i] == rest[i - 1]); }
            }
        } else {
            assert forall|i: int, j: int| 0 <= i < split_spec(s, c).len() && 0 <= j < split_spec(s, c)[i].len() implies split_spec(s, c)[i][j] != c by {
                if i == 0 { if j > 0 { assert(split_spec(s, c)[0][j] == rest[0][j - 1]); } }
                else { assert(split_spec(s, c)[i] == rest[i]); }
            }
        }
    }
}

/// every character of every item is a character of the text
pub proof fn lemma_split_chars_from_text(s: Seq<char>, c: char)
    ensures forall|i: int, j: int| 0 <= i < split_spec(s, c).len() && 0 <= j < split_spec(s, c)[i].len() ==> s.contains(#[trigger] split_spec(s, c)[i][j])
    decreases s.len()
{
    lemma_split_nonempty(s, c);
    if s.len() > 0 {
        let t = s.drop_first();
        lemma_split_chars_from_text(t, c);
        lemma_split_nonempty(t, c);
        let rest = split_spec(t, c);
        assert forall|i: int, j: int| 0 <= i < split_spec(s, c).len() && 0 <= j < split_spec(s, c)[i].len() implies s.contains(#[trigger] split_spec(s, c)[i][j]) by {
            let x = split_spec(s, c)[i][j];
            if s[0] == c {
                if i > 0 { assert(split_spec(s, c)[i] == rest[i - 1]); assert(t.contains(x)); }
            } else if i == 0 {
                if j == 0 { assert(x == s[0]); } else { assert(x == rest[0][j - 1]); assert(t.contains(x)); }
            } else {
                assert(split_spec(s, c)[i] == rest[i]); assert(t.contains(x));
            }
            if t.contains(x) { let k = choose|k: int| 0 <= k < t.len() && t[k] == x; assert(s[k + 1] == x); }
        }
    }
}

// TRUSTED[split-char]: the items of `s.split(c)` for a char pattern are split_spec(s, c) (std doc: "An iterator over substrings of this
// string slice, separated by characters matched by a pattern"; adjacent / leading / trailing separators give empty items). Rule E14
// replaces `for p in X.split(c)` by a loop over this vector.
#[verifier::external_body]
pub fn vx_split_char<'a>(s: &'a str, c: char) -> (r: Vec<&'a str>)
    ensures r@.len() == split_spec(s@, c).len(),
        forall|i: int| 0 <= i < r@.len() ==> (#[trigger] r@[i])@ == split_spec(s@, c)[i],
{
    s.split(c).collect()
}

/// the items `s.split(sep)` yields for a string separator: for a one-character separator the same as for that character;
/// other separators are not specified here
pub uninterp spec fn split_str_other(s: Seq<char>, sep: Seq<char>) -> Seq<Seq<char>>;
pub open spec fn split_str_spec(s: Seq<char>, sep: Seq<char>) -> Seq<Seq<char>> {
    if sep.len() == 1 { split_spec(s, sep[0]) } else { split_str_other(s, sep) }
}

// TRUSTED[split-str]: the items of `s.split(sep)` for a &str pattern; with a one-character separator they are split_spec(s, that character)
// (std doc, as for vx_split_char). Rule E18 replaces `X.split(S).map(f).collect()` by a loop over this vector.
#[verifier::external_body]
pub fn vx_split_str<'a>(s: &'a str, sep: &str) -> (r: Vec<&'a str>)
    ensures r@.len() == split_str_spec(s@, sep@).len(),
        forall|i: int| 0 <= i < r@.len() ==> (#[trigger] r@[i])@ == split_str_spec(s@, sep@)[i],
{
    s.split(sep).collect()
}

/// index of the first occurrence of c in s, or s.len()
pub open spec fn first_occurrence(s: Seq<char>, c: char) -> int
    decreases s.len()
{
    if s.len() == 0 || s[0] == c { 0 } else { 1 + first_occurrence(s.drop_first(), c) }
}
pub proof fn lemma_first_occurrence(s: Seq<char>, c: char)
    ensures 0 <= first_occurrence(s, c) <= s.len(),
        forall|j: int| 0 <= j < first_occurrence(s, c) ==> s[j] != c,
        first_occurrence(s, c) < s.len() ==> s[first_occurrence(s, c)] == c,
    decreases s.len()
{
    if s.len() > 0 && s[0] != c {
        lemma_first_occurrence(s.drop_first(), c);
        assert forall|j: int| 0 <= j < first_occurrence(s, c) implies s[j] != c by { if j > 0 { assert(s[j] == s.drop_first()[j - 1]); } }
        if first_occurrence(s, c) < s.len() { assert(s[first_occurrence(s, c)] == s.drop_first()[first_occurrence(s, c) - 1]); }
    }
}

// TRUSTED[str-split-once-char]: `s.split_once(p)` for a one-character pattern splits at the first occurrence of that character (std doc:
// "Splits the string on the first occurrence of the specified delimiter and returns prefix before delimiter and suffix after delimiter"),
// None if it does not occur.
#[verifier::allow(undeclared_external_trait)]
pub assume_specification<'a, P: std::str::pattern::Pattern> [str::split_once::<P>] (s: &'a str, p: P) -> (r: Option<(&'a str, &'a str)>)
    ensures super::trusted_strings::pattern_text::<P>(p).len() == 1 ==> ({
        let c = super::trusted_strings::pattern_text::<P>(p)[0];
        match r {
            Some((a, b)) => first_occurrence(s@, c) < s@.len() && a@ == s@.take(first_occurrence(s@, c)) && b@ == s@.skip(first_occurrence(s@, c) + 1),
            None => first_occurrence(s@, c) == s@.len(),
        } });

// TRUSTED[option-get-or-insert-with]: std doc: "Inserts a value computed from f into the option if it is None, then returns a mutable
// reference to the contained value."
#[verifier::allow(undeclared_external_trait)]
pub assume_specification<T, F> [std::option::Option::<T>::get_or_insert_with] (o: &mut std::option::Option<T>, f: F) -> (r: &mut T)
    where F: std::ops::FnOnce() -> T + std::marker::Destruct,
    requires f.requires(()),
    ensures
        match *old(o) { Some(x) => *r == x, None => f.ensures((), *r) },
        *final(o) == Some(*final(r)),
;

}
}
