// shared by units semver_order and pep440_order (included inside verus!{} after prelude/strings.rs, string_ord.rs and display_text.rs):
// numeric texts of any size and their comparison by value. Specification and proved lemmas only, nothing trusted.

/// a non-empty text of ASCII digits: what SemVer 2.0.0 / PEP 440 call a numeric identifier / numeric local part
pub open spec fn numeric(t: Seq<char>) -> bool { t.len() > 0 && forall|i: int| 0 <= i < t.len() ==> is_ascii_digit_c(#[trigger] t[i]) }
pub open spec fn digits_only(t: Seq<char>) -> bool { forall|i: int| 0 <= i < t.len() ==> is_ascii_digit_c(#[trigger] t[i]) }
/// the value of a digit text (0 for the empty text)
pub open spec fn val(t: Seq<char>) -> nat
    decreases t.len()
{
    if t.len() == 0 { 0 } else { val(t.drop_last()) * 10 + ((t.last() as u32 - 48) as nat) }
}
pub open spec fn ord_nat(a: nat, b: nat) -> Ordering {
    if a < b { Ordering::Less } else if a == b { Ordering::Equal } else { Ordering::Greater }
}
pub open spec fn ord_len(a: int, b: int) -> Ordering {
    if a < b { Ordering::Less } else if a == b { Ordering::Equal } else { Ordering::Greater }
}

/// the decimal text of a number is numeric and has that value
pub proof fn lemma_val_dec(n: nat)
    ensures numeric(dec(n)), val(dec(n)) == n,
    decreases n
{
    if n >= 10 {
        lemma_val_dec(n / 10);
        let a = dec(n / 10);
        let t = dec(n);
        assert(t == a.push(digit_c((n % 10) as int)));
        assert(t.drop_last() =~= a);
        assert forall|i: int| 0 <= i < t.len() implies is_ascii_digit_c(#[trigger] t[i]) by { if i < a.len() { assert(t[i] == a[i]); } }
        lemma_digit_c((n % 10) as int);
        assert(t.last() == digit_c((n % 10) as int));
        assert(val(t) == val(a) * 10 + (n % 10)) by (nonlinear_arith)
            requires val(t) == val(t.drop_last()) * 10 + ((t.last() as u32 - 48) as nat), t.drop_last() == a, (t.last() as u32 - 48) as nat == n % 10;
        assert(val(a) == n / 10);
        assert((n / 10) * 10 + n % 10 == n);
    } else {
        let t = dec(n);
        assert(t =~= seq![digit_c(n as int)]);
        assert(t.drop_last() =~= Seq::<char>::empty());
        assert(val(t.drop_last()) == 0);
        assert(t.last() == digit_c(n as int));
        lemma_digit_c(n as int);
        assert(is_ascii_digit_c(t[0]));
    }
}
pub proof fn lemma_digit_c(d: int)
    requires 0 <= d <= 9
    ensures is_ascii_digit_c(digit_c(d)), (digit_c(d) as u32 - 48) as nat == d as nat
{
    assert(((48 + d) as u8) as int == 48 + d);
    assert((((48 + d) as u8) as char) as u32 == (48 + d) as u32);
}

/// a leading zero does not change the value
pub proof fn lemma_val_leading_zero(t: Seq<char>)
    requires t.len() > 0, t[0] == '0'
    ensures val(t.skip(1)) == val(t)
    decreases t.len()
{
    if t.len() == 1 {
        assert(t.drop_last() =~= Seq::<char>::empty());
        assert(t.skip(1) =~= Seq::<char>::empty());
    } else {
        lemma_val_leading_zero(t.drop_last());
        assert(t.skip(1).drop_last() =~= t.drop_last().skip(1));
        assert(t.skip(1).last() == t.last());
    }
}

/// stripping all leading zeros keeps the value, keeps the digits, and leaves no leading zero
pub proof fn lemma_strip_zeros_value(t: Seq<char>)
    requires digits_only(t)
    ensures val(strip_start(t, seq!['0'])) == val(t), digits_only(strip_start(t, seq!['0'])),
        strip_start(t, seq!['0']).len() > 0 ==> strip_start(t, seq!['0'])[0] != '0',
        strip_start(t, seq!['0']).len() <= t.len(),
    decreases t.len()
{
    let z = seq!['0'];
    if is_prefix(z, t) {
        assert(t[0] == z[0]);
        lemma_val_leading_zero(t);
        assert(t.skip(z.len() as int) == t.skip(1));
        assert forall|i: int| 0 <= i < t.skip(1).len() implies is_ascii_digit_c(#[trigger] t.skip(1)[i]) by { assert(t.skip(1)[i] == t[i + 1]); }
        lemma_strip_zeros_value(t.skip(1));
    } else {
        if t.len() > 0 && t[0] == '0' { assert(t.subrange(0, 1) =~= z); }
    }
}

/// a digit text without a leading zero is at least 1
pub proof fn lemma_val_positive(t: Seq<char>)
    requires t.len() > 0, digits_only(t), t[0] != '0'
    ensures val(t) >= 1
    decreases t.len()
{
    if t.len() > 1 {
        let p = t.drop_last();
        assert(p[0] == t[0]);
        assert forall|i: int| 0 <= i < p.len() implies is_ascii_digit_c(#[trigger] p[i]) by { assert(p[i] == t[i]); }
        lemma_val_positive(p);
    } else {
        assert(t.drop_last() =~= Seq::<char>::empty());
        assert(is_ascii_digit_c(t[0]));
    }
}

/// without leading zeros the longer text is the larger number
pub proof fn lemma_longer_is_larger(x: Seq<char>, y: Seq<char>)
    requires digits_only(x), digits_only(y), x.len() < y.len(), y[0] != '0'
    ensures val(x) < val(y)
    decreases x.len()
{
    if x.len() == 0 {
        lemma_val_positive(y);
    } else {
        let (px, py) = (x.drop_last(), y.drop_last());
        assert(py[0] == y[0]);
        assert forall|i: int| 0 <= i < px.len() implies is_ascii_digit_c(#[trigger] px[i]) by { assert(px[i] == x[i]); }
        assert forall|i: int| 0 <= i < py.len() implies is_ascii_digit_c(#[trigger] py[i]) by { assert(py[i] == y[i]); }
        lemma_longer_is_larger(px, py);
        assert(is_ascii_digit_c(x.last()) && is_ascii_digit_c(y.last()));
    }
}

/// lexicographic order of two texts of the same length, read from the end: the prefixes decide, then the last characters
pub proof fn lemma_lex_snoc(x: Seq<char>, y: Seq<char>)
    requires x.len() == y.len(), x.len() > 0
    ensures lex_chars(x, y) == (if lex_chars(x.drop_last(), y.drop_last()) != Ordering::Equal { lex_chars(x.drop_last(), y.drop_last()) }
        else if (x.last() as u32) < (y.last() as u32) { Ordering::Less } else if (x.last() as u32) > (y.last() as u32) { Ordering::Greater } else { Ordering::Equal })
    decreases x.len()
{
    if x.len() == 1 {
        assert(x.drop_last() =~= Seq::<char>::empty() && y.drop_last() =~= Seq::<char>::empty());
        assert(x.subrange(1, 1) =~= Seq::<char>::empty() && y.subrange(1, 1) =~= Seq::<char>::empty());
    } else {
        let (x1, y1) = (x.subrange(1, x.len() as int), y.subrange(1, y.len() as int));
        lemma_lex_snoc(x1, y1);
        assert(x1.drop_last() =~= x.drop_last().subrange(1, x.len() - 1));
        assert(y1.drop_last() =~= y.drop_last().subrange(1, y.len() - 1));
        assert(x1.last() == x.last() && y1.last() == y.last());
        assert(x.drop_last()[0] == x[0] && y.drop_last()[0] == y[0]);
    }
}

/// digit texts of the same length compare by value exactly as they compare lexicographically
pub proof fn lemma_same_length_by_value(x: Seq<char>, y: Seq<char>)
    requires digits_only(x), digits_only(y), x.len() == y.len()
    ensures ord_nat(val(x), val(y)) == lex_chars(x, y)
    decreases x.len()
{
    if x.len() > 0 {
        let (px, py) = (x.drop_last(), y.drop_last());
        assert forall|i: int| 0 <= i < px.len() implies is_ascii_digit_c(#[trigger] px[i]) by { assert(px[i] == x[i]); }
        assert forall|i: int| 0 <= i < py.len() implies is_ascii_digit_c(#[trigger] py[i]) by { assert(py[i] == y[i]); }
        lemma_same_length_by_value(px, py);
        lemma_lex_snoc(x, y);
        assert(is_ascii_digit_c(x.last()) && is_ascii_digit_c(y.last()));
    }
}

/// what `compare_numeric_texts` computes — leading zeros stripped, then the length, then the text — is the comparison by value
pub proof fn lemma_compare_numeric_texts(a: Seq<char>, b: Seq<char>)
    requires digits_only(a), digits_only(b)
    ensures ({
        let (x, y) = (strip_start(a, seq!['0']), strip_start(b, seq!['0']));
        ord_nat(val(a), val(b)) == (if ord_len(x.len() as int, y.len() as int) != Ordering::Equal { ord_len(x.len() as int, y.len() as int) } else { lex_chars(x, y) })
    })
{
    let (x, y) = (strip_start(a, seq!['0']), strip_start(b, seq!['0']));
    lemma_strip_zeros_value(a);
    lemma_strip_zeros_value(b);
    if x.len() < y.len() { lemma_longer_is_larger(x, y); }
    else if y.len() < x.len() { lemma_longer_is_larger(y, x); }
    else { lemma_same_length_by_value(x, y); }
}
