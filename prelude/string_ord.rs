// ---- trusted prelude: ordering of std::string::String -------------------------------------
// Kept in its own module because Verus rejects `broadcast use` of an axiom of the same module.
mod trusted_string_ord {
use vstd::prelude::*;
use vstd::std_specs::cmp::*;
use std::cmp::Ordering;
verus! {

/// Lexicographic comparison of two code-point sequences (shorter prefix lower).
pub open spec fn lex_chars(a: Seq<char>, b: Seq<char>) -> Ordering
    decreases a.len()
{
    if a.len() == 0 {
        if b.len() == 0 { Ordering::Equal } else { Ordering::Less }
    } else if b.len() == 0 {
        Ordering::Greater
    } else if (a[0] as u32) < (b[0] as u32) {
        Ordering::Less
    } else if (a[0] as u32) > (b[0] as u32) {
        Ordering::Greater
    } else {
        lex_chars(a.subrange(1, a.len() as int), b.subrange(1, b.len() as int))
    
}
}

// TRUSTED[string-ord-obeys]: `impl Ord for String` is a lawful total order (std documentation).
pub broadcast axiom fn axiom_string_obeys_cmp()
    ensures #[trigger] <String as OrdSpec>::obeys_cmp_spec();

// TRUSTED[string-ord-lex]: std documents that strings compare lexicographically by byte value, and that
// this equals code-point order (UTF-8 preserves it); on ASCII text this is ASCII order.
pub broadcast axiom fn axiom_string_cmp_is_lex(a: String, b: String)
    ensures #[trigger] a.cmp_spec(&b) == lex_chars(a@, b@);

// TRUSTED[str-ord-obeys]: `impl Ord for str` is a lawful total order (std documentation).
pub broadcast axiom fn axiom_str_obeys_cmp()
    ensures #[trigger] <str as OrdSpec>::obeys_cmp_spec();
// TRUSTED[str-ord-lex]: string slices compare lexicographically by byte value, which equals code-point order (see string-ord-lex).
pub broadcast axiom fn axiom_str_cmp_is_lex(a: &str, b: &str)
    ensures #[trigger] a.cmp_spec(b) == lex_chars(a@, b@);

// TRUSTED[ordering-eq]: `==` on core::cmp::Ordering (derived PartialEq of a field-less enum) is structural equality.
pub broadcast axiom fn axiom_ordering_obeys_eq()
    ensures #[trigger] <Ordering as PartialEqSpec>::obeys_eq_spec();
// TRUSTED[ordering-eq-spec]: its eq_spec is that structural equality.
pub broadcast axiom fn axiom_ordering_eq(a: Ordering, b: Ordering)
    ensures #[trigger] a.eq_spec(&b) == (a == b);

}
}
