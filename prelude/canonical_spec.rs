// shared by units semver_to_zerv and semver_from_zerv (included inside verus!{} after the extracted Var / Component / ZervVars / Zerv / SemVer types and a
// definition of label_text and of default_core); specification only, nothing trusted: the statement's canonical SemVer shape and the Zerv object it stands for (C07)

/// a schema component as the statement sees it: a variable, a number, or a literal text
pub enum CView { Var(Var), UInt(u64), Str(Seq<char>) }
pub open spec fn cview(c: Component) -> CView {
    match c { Component::Var(v) => CView::Var(v), Component::UInt(n) => CView::UInt(n), Component::Str(s) => CView::Str(s@) }
}
pub open spec fn cviews(s: Seq<Component>) -> Seq<CView> { s.map_values(|c: Component| cview(c)) }

pub open spec fn build_literal(m: BuildMetadata) -> CView { match m { BuildMetadata::Str(s) => CView::Str(s@), BuildMetadata::UInt(n) => CView::UInt(n) } }
pub open spec fn build_literals(b: Seq<BuildMetadata>, n: int) -> Seq<CView>
    decreases n
{
    if n <= 0 { Seq::empty() } else { build_literals(b, n - 1).push(build_literal(b[n - 1])) }
}
// ---- the statement's canonical shape  X.Y.Z[-[epoch.E.][alpha|beta|rc.N.][post.P.][dev.D]][+ids]
pub open spec fn txt(i: PreReleaseIdentifier, t: Seq<char>) -> bool { i is Str && i->Str_0@ == t }
/// the identifiers of a canonical pre-release part, built from its four optional slots
pub open spec fn canonical_ids(e: Option<u64>, pre: Option<(PreReleaseLabel, u64)>, p: Option<u64>, d: Option<u64>) -> Seq<CanonId> {
    (match e { Some(n) => seq![CanonId::Label(Var::Epoch), CanonId::Num(n)], None => seq![] })
    + (match pre { Some(ln) => seq![CanonId::Pre(ln.0), CanonId::Num(ln.1)], None => seq![] })
    + (match p { Some(n) => seq![CanonId::Label(Var::Post), CanonId::Num(n)], None => seq![] })
    + (match d { Some(n) => seq![CanonId::Label(Var::Dev), CanonId::Num(n)], None => seq![] })
}
pub enum CanonId { Label(Var), Pre(PreReleaseLabel), Num(u64) }
pub open spec fn is_canon_id(i: PreReleaseIdentifier, c: CanonId) -> bool {
    match c {
        CanonId::Label(v) => (v == Var::Epoch && txt(i, "epoch"@)) || (v == Var::Post && txt(i, "post"@)) || (v == Var::Dev && txt(i, "dev"@)),
        CanonId::Pre(l) => txt(i, label_text(l)),
        CanonId::Num(n) => i == PreReleaseIdentifier::UInt(n),
    }
}
pub open spec fn matches_canon(ids: Seq<PreReleaseIdentifier>, c: Seq<CanonId>) -> bool {
    ids.len() == c.len() && forall|k: int| 0 <= k < ids.len() ==> is_canon_id(#[trigger] ids[k], c[k])
}
/// v has the canonical shape with these slots
pub open spec fn canonical(v: SemVer, e: Option<u64>, pre: Option<(PreReleaseLabel, u64)>, p: Option<u64>, d: Option<u64>) -> bool {
    match v.pre_release {
        Some(ids) => matches_canon(ids@, canonical_ids(e, pre, p, d)),
        None => e is None && pre is None && p is None && d is None,
    }
}
/// what the statement says a canonical version becomes: each slot in its variable, the variables that are present listed in the extra-core section
/// in the order epoch, pre-release, post, dev
pub open spec fn canonical_extra(e: Option<u64>, pre: Option<(PreReleaseLabel, u64)>, p: Option<u64>, d: Option<u64>) -> Seq<CView> {
    (if e is Some { seq![CView::Var(Var::Epoch)] } else { seq![] }) + (if pre is Some { seq![CView::Var(Var::PreRelease)] } else { seq![] })
    + (if p is Some { seq![CView::Var(Var::Post)] } else { seq![] }) + (if d is Some { seq![CView::Var(Var::Dev)] } else { seq![] })
}
pub open spec fn canonical_vars(v: SemVer, z: ZervVars, e: Option<u64>, pre: Option<(PreReleaseLabel, u64)>, p: Option<u64>, d: Option<u64>) -> bool {
    &&& z.major == Some(v.major) && z.minor == Some(v.minor) && z.patch == Some(v.patch)
    &&& z.epoch == e && z.post == p && z.dev == d
    &&& z.pre_release == (match pre { Some(ln) => Some(PreReleaseVar { label: ln.0, number: Some(ln.1) }), None => None })
    &&& z.distance is None && z.dirty is None && z.bumped_branch is None && z.bumped_commit_hash is None && z.bumped_timestamp is None
    &&& z.last_branch is None && z.last_commit_hash is None && z.last_timestamp is None && z.last_tag_version is None
}
pub open spec fn is_canonical_zerv_of(z: Zerv, v: SemVer, e: Option<u64>, pre: Option<(PreReleaseLabel, u64)>, p: Option<u64>, d: Option<u64>) -> bool {
    &&& canonical_vars(v, z.vars, e, pre, p, d)
    &&& z.schema.core_view() =~= default_core()
    &&& cviews(z.schema.extra_view()) =~= canonical_extra(e, pre, p, d)
    &&& cviews(z.schema.build_view()) =~= (match v.build_metadata { Some(b) => build_literals(b@, b@.len() as int), None => Seq::empty() })
}



// ---- the Zerv object of a PEP 440 version with at most three release numbers, by its slots (what PEP440::to_zerv_with_schema is proved to return, unit
// pep440_from_zerv; what SemVer::from is proved to turn into the canonical shape, unit semver_from_zerv)
pub open spec fn default_extra4() -> Seq<CView> { seq![CView::Var(Var::Epoch), CView::Var(Var::PreRelease), CView::Var(Var::Post), CView::Var(Var::Dev)] }
pub open spec fn is_pep_shaped_zerv(z: Zerv, mj: u64, mn: Option<u64>, pt: Option<u64>, e: Option<u64>, pre: Option<(PreReleaseLabel, u64)>, p: Option<u64>, d: Option<u64>,
    b: Seq<BuildMetadata>) -> bool
{
    &&& z.vars.major == Some(mj) && z.vars.minor == mn && z.vars.patch == pt && (mn is None ==> pt is None)
    &&& z.vars.epoch == e && z.vars.post == p && z.vars.dev == d
    &&& z.vars.pre_release == (match pre { Some(ln) => Some(PreReleaseVar { label: ln.0, number: Some(ln.1) }), None => None })
    &&& z.schema.core_view() =~= default_core()
    &&& cviews(z.schema.extra_view()) =~= default_extra4()
    &&& cviews(z.schema.build_view()) =~= build_literals(b, b.len() as int)
}
