use vstd::prelude::*;
verus! {

fn f1(v: &Vec<u64>) -> (r: Vec<u64>)
    ensures r.len() == v.len(), forall|i: int| 0 <= i < r.len() ==> r[i] == v[i] / 2
{
    v.iter().map(|x: &u64| -> (r: u64) ensures r == *x / 2 { *x / 2 }).collect::<Vec<_>>()
}

fn f2(v: &Vec<u64>) -> (r: bool)
   ensures r == forall|i: int| 0 <= i < v.len() ==> v[i] > 2
{
    v.iter().all(|x: &u64| -> (r: bool) ensures r == (*x > 2) { *x > 2 })
}

fn f3(v: &Vec<u64>) -> (r: Vec<u64>)
    ensures r.len() == v.len(), forall|i: int| 0 <= i < r.len() ==> r[i] == v[i] / 2
{
    v.iter().map(|x| *x / 2).collect::<Vec<_>>()
}

fn f4(s: &str) -> (r: bool)
   ensures r == forall|i: int| 0 <= i < s@.len() ==> s@[i] == 'a'
{
    s.chars().all(|c| c == 'a')
}

} // verus!
fn main() {}
