use vstd::prelude::*;
verus! {

#[verifier::external_trait_specification]
pub trait ExPattern: Sized {
    type ExternalTraitSpecificationFor: std::str::pattern::Pattern;
    type Searcher<'a>;
}

#[verifier::reject_recursive_types(P)]
#[verifier::external_type_specification]
#[verifier::external_body]
pub struct ExSplit<'a, P: std::str::pattern::Pattern>(std::str::Split<'a, P>);

pub assume_specification<'a, P: std::str::pattern::Pattern> [str::split::<P>] (s: &'a str, p: P) -> (r: std::str::Split<'a, P>);

fn f2(v: &str) -> (r: u64)
{
    let mut c = 0u64;
    for part in v.split('.')
    {
        if part.is_empty() { c = 1; }
    }
    c
}
} // verus!
fn main() {}
