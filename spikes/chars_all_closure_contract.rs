use vstd::prelude::*;
verus! {
fn f4(s: &str) -> (r: bool)
   ensures r ==> forall|i: int| 0 <= i < s@.len() ==> s@[i] == 'a'
{
    s.chars().all(|c: char| -> (b: bool) ensures b == (c == 'a') { c == 'a' })
}
fn f5(s: &str) -> (r: bool)
   ensures (forall|i: int| 0 <= i < s@.len() ==> s@[i] == 'a') ==> r
{
    s.chars().all(|c: char| -> (b: bool) ensures b == (c == 'a') { c == 'a' })
}
fn f6(s: &str) -> (r: bool)
{
    let r = s.chars().all(|c: char| -> (b: bool) ensures b == (c == 'a') { c == 'a' });
    assert(r == true || r == false);
    r
}
} // verus!
fn main() {}
