use vstd::prelude::*;
verus! {
pub struct Vars { pub major: Option<u64>, pub minor: Option<u64>, pub patch: Option<u64> }
pub struct Zerv { pub vars: Vars }
pub enum Precedence { Major, Minor, Patch }
pub struct ZervError {}

impl Zerv {
    #[verifier::external_body]
    pub fn reset_lower_precedence_components(&mut self, precedence: &Precedence) -> (r: Result<(), ZervError>)
        ensures r is Ok ==> (final(self).vars.major == old(self).vars.major && final(self).vars.minor == Some(0u64)),
    { unimplemented!() }

    pub fn process_major(
        &mut self,
        override_value: Option<u32>,
        bump_value: Option<u32>,
    ) -> (r: Result<(), ZervError>)
      ensures r is Ok ==> final(self).vars.major == (match bump_value { Some(b) => Some(((match override_value { Some(o) => o as u64, None => match old(self).vars.major { Some(m) => m, None => 0 } }) + b) as u64), None => match override_value { Some(o) => Some(o as u64), None => old(self).vars.major } })
    {
        // 1. Override step - set absolute value if specified
        if let Some(override_val) = override_value {
            self.vars.major = Some(override_val as u64);
        }

        // 2. Bump + Reset step (atomic operation)
        if let Some(increment) = bump_value {
            self.vars.major = Some(self.vars.major.unwrap_or(0) + increment as u64);
            self.reset_lower_precedence_components(&Precedence::Major)?;
        }

        Ok(())
    }
}
}
fn main() {}
