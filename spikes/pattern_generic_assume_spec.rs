#![allow(unused_imports)]
use vstd::prelude::*;
verus! {

pub uninterp spec fn spec_trim_end(s: Seq<char>, p: Seq<char>) -> Seq<char>;

#[verifier::allow(undeclared_external_trait)]
pub assume_specification<'b, P: std::str::pattern::Pattern> [str::trim_end_matches::<P>] (s: &'b str, p: P) -> (r: &'b str)
    where for<'a> <P as std::str::pattern::Pattern>::Searcher<'a>: std::str::pattern::ReverseSearcher<'a>;

fn f(result: &String, sep: &String) -> String {
    result.trim_end_matches(sep).to_string()
}
} // verus!
fn main() {}
