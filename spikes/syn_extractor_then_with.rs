use syn::visit_mut::VisitMut;
struct R;
impl VisitMut for R {
    fn visit_expr_mut(&mut self, e: &mut syn::Expr) {
        syn::visit_mut::visit_expr_mut(self, e);
        if let syn::Expr::MethodCall(mc) = e {
            if mc.method == "then_with" && mc.args.len() == 1 {
                if let syn::Expr::Closure(c) = &mc.args[0] {
                    let recv = &mc.receiver; let body = &c.body;
                    let new: syn::Expr = syn::parse_quote!(match #recv { ::std::cmp::Ordering::Equal => #body, __o => __o });
                    *e = new;
                }
            }
        }
    }
}
fn main() {
    let src = std::fs::read_to_string(std::env::args().nth(1).unwrap()).unwrap();
    let mut f = syn::parse_file(&src).unwrap();
    f.items.retain(|i| !matches!(i, syn::Item::Mod(m) if m.attrs.iter().any(|a| a.path().is_ident("cfg"))));
    R.visit_file_mut(&mut f);
    print!("{}", prettyplease::unparse(&f));
}
