use vstd::prelude::*;
verus! {

pub uninterp spec fn spec_is_alnum(c: char) -> bool;

pub assume_specification [char::is_alphanumeric] (c: char) -> (r: bool)
    ensures r == spec_is_alnum(c);

pub open spec fn only(s: Seq<char>, sep: Seq<char>) -> bool {
    forall|i: int| 0 <= i < s.len() ==> spec_is_alnum(s[i]) || sep.contains(s[i])
}

fn f1(input: &str, sep: &String) -> (r: String)
    ensures only(r@, sep@)
{
    let mut result = String::new();
    let mut last_was_sep = false;
    for ch in it: input.chars()
        invariant only(result@, sep@)
    {
        if ch.is_alphanumeric() {
            result.push(ch);
            last_was_sep = false;
        } else if !last_was_sep {
            result.push_str(sep);
            last_was_sep = true;
        }
    }
    result
}

} // verus!
fn main() {}
