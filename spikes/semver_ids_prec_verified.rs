use vstd::prelude::*;
use vstd::std_specs::cmp::*;
use std::cmp::Ordering;
verus! {

broadcast use trusted_std::axiom_string_obeys_cmp;

#[derive(PartialEq, Eq)]
pub enum PreReleaseIdentifier { Str(String), UInt(u64) }
#[derive(PartialEq, Eq)]
pub enum BuildMetadata { Str(String), UInt(u64) }
pub struct SemVer {
    pub major: u64, pub minor: u64, pub patch: u64,
    pub pre_release: Option<Vec<PreReleaseIdentifier>>,
    pub build_metadata: Option<Vec<BuildMetadata>>,
}

// ---------- spec (from SemVer 2.0.0 §11) ----------
pub open spec fn ord_u64(a: u64, b: u64) -> Ordering {
    if a < b { Ordering::Less } else if a == b { Ordering::Equal } else { Ordering::Greater }
}
pub open spec fn id_prec(a: PreReleaseIdentifier, b: PreReleaseIdentifier) -> Ordering {
    match (a, b) {
        (PreReleaseIdentifier::UInt(x), PreReleaseIdentifier::UInt(y)) => ord_u64(x, y),
        (PreReleaseIdentifier::Str(x), PreReleaseIdentifier::Str(y)) => x.cmp_spec(&y),
        (PreReleaseIdentifier::UInt(_), PreReleaseIdentifier::Str(_)) => Ordering::Less,
        (PreReleaseIdentifier::Str(_), PreReleaseIdentifier::UInt(_)) => Ordering::Greater,
    }
}
pub open spec fn ids_prec(l: Seq<PreReleaseIdentifier>, r: Seq<PreReleaseIdentifier>) -> Ordering
    decreases l.len()
{
    if l.len() == 0 { if r.len() == 0 { Ordering::Equal } else { Ordering::Less } }
    else if r.len() == 0 { Ordering::Greater }
    else if id_prec(l[0], r[0]) != Ordering::Equal { id_prec(l[0], r[0]) }
    else { ids_prec(l.subrange(1, l.len() as int), r.subrange(1, r.len() as int)) }
}

impl PartialOrdSpecImpl for PreReleaseIdentifier {
    open spec fn obeys_partial_cmp_spec() -> bool { true }
    open spec fn partial_cmp_spec(&self, other: &Self) -> Option<Ordering> { Some(id_prec(*self, *other)) }
}
impl OrdSpecImpl for PreReleaseIdentifier {
    open spec fn obeys_cmp_spec() -> bool { true }
    open spec fn cmp_spec(&self, other: &Self) -> Ordering { id_prec(*self, *other) }
}
impl PartialOrd for PreReleaseIdentifier {
    fn partial_cmp(&self, other: &Self) -> Option<Ordering> { Some(self.cmp(other)) }
}
impl Ord for PreReleaseIdentifier {
    fn cmp(&self, other: &Self) -> Ordering {
        match (self, other) {
            (PreReleaseIdentifier::UInt(a), PreReleaseIdentifier::UInt(b)) => a.cmp(b),
            (PreReleaseIdentifier::Str(a), PreReleaseIdentifier::Str(b)) => a.cmp(b),
            (PreReleaseIdentifier::UInt(_), PreReleaseIdentifier::Str(_)) => Ordering::Less,
            (PreReleaseIdentifier::Str(_), PreReleaseIdentifier::UInt(_)) => Ordering::Greater,
        }
    }
}

// lemma: skipping an equal prefix
proof fn lemma_skip(l: Seq<PreReleaseIdentifier>, r: Seq<PreReleaseIdentifier>, i: int)
    requires 0 <= i <= l.len(), i <= r.len(),
             forall|j: int| 0 <= j < i ==> id_prec(l[j], r[j]) == Ordering::Equal,
    ensures ids_prec(l, r) == ids_prec(l.subrange(i, l.len() as int), r.subrange(i, r.len() as int)),
    decreases i
{
    if i == 0 {
        assert(l.subrange(0, l.len() as int) =~= l);
        assert(r.subrange(0, r.len() as int) =~= r);
    } else {
        let l1 = l.subrange(1, l.len() as int);
        let r1 = r.subrange(1, r.len() as int);
        assert forall|j: int| 0 <= j < i - 1 implies id_prec(l1[j], r1[j]) == Ordering::Equal by {
            assert(l1[j] == l[j + 1]); assert(r1[j] == r[j + 1]);
        }
        lemma_skip(l1, r1, i - 1);
        assert(l1.subrange(i - 1, l1.len() as int) =~= l.subrange(i, l.len() as int));
        assert(r1.subrange(i - 1, r1.len() as int) =~= r.subrange(i, r.len() as int));
    }
}

fn compare_pre_release_identifiers(
    left: &[PreReleaseIdentifier],
    right: &[PreReleaseIdentifier],
) -> (res: Ordering)
    ensures res == ids_prec(left@, right@)
{
    let min_len = left.len().min(right.len());

    for i in 0..min_len
        invariant
            min_len <= left.len(), min_len <= right.len(),
            min_len == left.len() || min_len == right.len(),
            forall|j: int| 0 <= j < i ==> id_prec(left@[j], right@[j]) == Ordering::Equal,
    {
        match left[i].cmp(&right[i]) {
            Ordering::Equal => {},
            other => {
                proof {
                    lemma_skip(left@, right@, i as int);
                    let ls = left@.subrange(i as int, left@.len() as int);
                    let rs = right@.subrange(i as int, right@.len() as int);
                    assert(ls[0] == left@[i as int]);
                    assert(rs[0] == right@[i as int]);
                }
                return other
            }
        }
    }
    proof {
        lemma_skip(left@, right@, min_len as int);
    }
    // If all compared identifiers are equal, the version with fewer identifiers has lower precedence
    left.len().cmp(&right.len())
}

} // verus!
mod trusted_std {
use vstd::prelude::*;
use vstd::std_specs::cmp::*;
verus! {
pub broadcast axiom fn axiom_string_obeys_cmp()
    ensures #[trigger] <String as OrdSpec>::obeys_cmp_spec();
}
}
fn main() {}
