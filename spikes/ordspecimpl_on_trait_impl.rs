use vstd::prelude::*;
use vstd::std_specs::cmp::*;
use std::cmp::Ordering;
verus! {

pub assume_specification<F: FnOnce() -> Ordering>[ Ordering::then_with ](o: Ordering, f: F) -> (r: Ordering)
    requires o == Ordering::Equal ==> f.requires(()),
    ensures o != Ordering::Equal ==> r == o,
            o == Ordering::Equal ==> f.ensures((), r);

broadcast use trusted_std::axiom_string_obeys_cmp;

#[derive(PartialEq, Eq)]
pub enum PreReleaseIdentifier {
    Str(String),
    UInt(u64),
}

pub open spec fn spec_u64_cmp(a: u64, b: u64) -> Ordering {
    if a < b { Ordering::Less } else if a == b { Ordering::Equal } else { Ordering::Greater }
}

pub uninterp spec fn spec_str_cmp(a: Seq<char>, b: Seq<char>) -> Ordering;

pub open spec fn spec_id_cmp(a: PreReleaseIdentifier, b: PreReleaseIdentifier) -> Ordering {
    match (a, b) {
        (PreReleaseIdentifier::UInt(x), PreReleaseIdentifier::UInt(y)) => spec_u64_cmp(x, y),
        (PreReleaseIdentifier::Str(x), PreReleaseIdentifier::Str(y)) => x.cmp_spec(&y),
        (PreReleaseIdentifier::UInt(_), PreReleaseIdentifier::Str(_)) => Ordering::Less,
        (PreReleaseIdentifier::Str(_), PreReleaseIdentifier::UInt(_)) => Ordering::Greater,
    }
}

impl PartialOrdSpecImpl for PreReleaseIdentifier {
    open spec fn obeys_partial_cmp_spec() -> bool { true }
    open spec fn partial_cmp_spec(&self, other: &Self) -> Option<Ordering> { Some(spec_id_cmp(*self, *other)) }
}
impl OrdSpecImpl for PreReleaseIdentifier {
    open spec fn obeys_cmp_spec() -> bool { true }
    open spec fn cmp_spec(&self, other: &Self) -> Ordering { spec_id_cmp(*self, *other) }
}

impl PartialOrd for PreReleaseIdentifier {
    fn partial_cmp(&self, other: &Self) -> Option<Ordering> {
        Some(self.cmp(other))
    }
}

impl Ord for PreReleaseIdentifier {
    fn cmp(&self, other: &Self) -> Ordering {
        match (self, other) {
            (PreReleaseIdentifier::UInt(a), PreReleaseIdentifier::UInt(b)) => a.cmp(b),
            (PreReleaseIdentifier::Str(a), PreReleaseIdentifier::Str(b)) => a.cmp(b),
            (PreReleaseIdentifier::UInt(_), PreReleaseIdentifier::Str(_)) => Ordering::Less,
            (PreReleaseIdentifier::Str(_), PreReleaseIdentifier::UInt(_)) => Ordering::Greater,
        }
    }
}

} // verus!
mod trusted_std {
use vstd::prelude::*;
use vstd::std_specs::cmp::*;
verus! {
pub broadcast axiom fn axiom_string_obeys_cmp()
    ensures #[trigger] <String as OrdSpec>::obeys_cmp_spec();
}
}
fn main() {}
