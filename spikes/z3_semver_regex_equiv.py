import time
from z3 import *
def rng(a,b): return Range(a,b)
def U(*xs): 
    return Union(*xs) if len(xs)>1 else xs[0]
def C(*xs): return Concat(*xs) if len(xs)>1 else xs[0]
def lit(s): return Re(StringVal(s))
digit_ascii = rng('0','9')
# unicode Nd (subset: ascii + arabic-indic + devanagari) to mimic \d
digit_uni = U(rng('0','9'), Range(StringVal('٠'),StringVal('٩')), Range(StringVal('०'),StringVal('९')))
def build(d):
    pos = rng('1','9')
    num = U(lit('0'), C(pos, Star(d)))
    letter = U(rng('a','z'), rng('A','Z'), lit('-'))
    idch = U(rng('0','9'), rng('a','z'), rng('A','Z'), lit('-'))
    alnumid = C(Star(d), letter, Star(idch))
    preid = U(num, alnumid)
    pre = C(preid, Star(C(lit('.'), preid)))
    bid = Plus(idch)
    build = C(bid, Star(C(lit('.'), bid)))
    return C(Option(lit('v')), num, lit('.'), num, lit('.'), num, Option(C(lit('-'), pre)), Option(C(lit('+'), build)))
code = build(digit_uni)
spec = build(digit_ascii)
for name,(a,b) in {'code-vs-spec':(code,spec),'spec-vs-spec':(build(digit_ascii),spec)}.items():
    s = String('s')
    sol = Solver()
    sol.set('timeout', 60000)
    sol.add(Xor(InRe(s,a), InRe(s,b)))
    t=time.time(); r=sol.check(); print(name, r, round(time.time()-t,2))
    if r==sat: print(repr(sol.model()[s]))
